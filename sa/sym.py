"""Symbolic terms with a polynomial normal form for integer arithmetic.

Terms are hashable tuples:
  ("int", n)                      integer constant
  ("float", x)                    floating constant
  ("str", s)
  ("sym", name)                   value of a parameter / opaque symbol
  ("var", name, id)               mutable local (value not tracked)
  ("glob", qname)                 object with static storage
  ("idx", ptr, i)                 lvalue  ptr[i]     (*p is ptr[0])
  ("fld", obj, field)             lvalue  obj.field  (p->f is fld(idx(p,0), f))
  ("addr", lvalue)                &lvalue ; p+i is addr(idx(p,i))
  ("poly", ((mono, coeff), ...))  sum of coeff * product(mono atoms); mono = sorted tuple of atoms
  ("op", op, a, b)                non-ring integer op ( / % << >> & | ^ ) or comparison / logical
  ("un", op, a)                   ~ !
  ("fop", op, a, b)               floating arithmetic (no reassociation)
  ("cast", type, a)               value-changing cast
  ("call", name, (args...))
  ("cond", c, a, b)
  ("new", type, size|None)
  ("unk", tag)                    unknown (unique tag)
Ring identities used are valid in Z and in Z/2^k, so equal normal forms mean equal
values under wrapping arithmetic of any width.
"""
from fractions import Fraction

ZERO = ("int", 0)
ONE = ("int", 1)


def I(n):
    return ("int", int(n))


def is_int(t):
    return t[0] == "int"


def sym(name):
    return ("sym", name)


def _key(t):
    return repr(t)


# ---------------------------------------------------------------- polynomials
def _as_poly(t):
    """term -> dict mono(tuple of atoms) -> coeff"""
    if t[0] == "int":
        return {(): t[1]} if t[1] else {}
    if t[0] == "poly":
        return dict(t[1])
    return {(t,): 1}


def _from_poly(p):
    p = {m: c for m, c in p.items() if c != 0}
    if not p:
        return ZERO
    if len(p) == 1:
        (m, c), = p.items()
        if m == ():
            return ("int", c)
        if c == 1 and len(m) == 1:
            return m[0]
    return ("poly", tuple(sorted(p.items(), key=lambda mc: (len(mc[0]), _key(mc[0])))))


def add(a, b):
    p = _as_poly(a)
    for m, c in _as_poly(b).items():
        p[m] = p.get(m, 0) + c
    return _from_poly(p)


def neg(a):
    return _from_poly({m: -c for m, c in _as_poly(a).items()})


def sub(a, b):
    return add(a, neg(b))


def mul(a, b):
    pa, pb = _as_poly(a), _as_poly(b)
    out = {}
    for ma, ca in pa.items():
        for mb, cb in pb.items():
            m = tuple(sorted(ma + mb, key=_key))
            out[m] = out.get(m, 0) + ca * cb
    return _from_poly(out)


def sum_terms(ts):
    r = ZERO
    for t in ts:
        r = add(r, t)
    return r


def const_value(t):
    return t[1] if t[0] == "int" else None


def poly_items(t):
    """list of (mono tuple, coeff)"""
    return list(_as_poly(t).items())


def coeff_of(t, atom):
    """(coefficient of `atom` as a linear term, rest) if t is linear in atom, else None"""
    p = _as_poly(t)
    c = 0
    rest = {}
    for m, k in p.items():
        n = sum(1 for a in m if a == atom)
        if n == 0:
            if contains(("poly", ((m, 1),)) if m else ZERO, atom):
                return None
            rest[m] = k
        elif n == 1 and len(m) == 1:
            c += k
        else:
            return None
    return c, _from_poly(rest)


def linear_in(t, atom):
    """t = a*atom + b with a, b free of atom (a may be symbolic) -> (a, b) or None"""
    p = _as_poly(t)
    a, b = {}, {}
    for m, k in p.items():
        n = sum(1 for x in m if x == atom)
        rest = tuple(x for x in m if x != atom)
        if any(contains(x, atom) for x in rest):
            return None
        if n == 0:
            b[m] = b.get(m, 0) + k
        elif n == 1:
            a[rest] = a.get(rest, 0) + k
        else:
            return None
    return _from_poly(a), _from_poly(b)


def contains(t, atom):
    if t == atom:
        return True
    if not isinstance(t, tuple) or not t:
        return False
    if not isinstance(t[0], str):
        return any(contains(x, atom) for x in t)
    if t[0] == "poly":
        return any(any(contains(x, atom) for x in m) for m, _ in t[1])
    return any(contains(x, atom) for x in t[1:] if isinstance(x, tuple))


def atoms(t, acc=None):
    """all non-arithmetic leaves/atoms occurring in t (syms, vars, flds ...)"""
    if acc is None:
        acc = set()
    if not isinstance(t, tuple) or not t:
        return acc
    if not isinstance(t[0], str):
        for x in t:
            atoms(x, acc)
        return acc
    if t[0] == "poly":
        for m, _ in t[1]:
            for x in m:
                atoms(x, acc)
    elif t[0] in ("sym", "var", "glob"):
        acc.add(t)
    elif t[0] in ("int", "float", "str", "unk"):
        pass
    else:
        if t[0] in ("fld", "idx"):
            acc.add(t)
        for x in t[1:]:
            if isinstance(x, tuple):
                atoms(x, acc)
    return acc


def subterms(t):
    """every sub-term (tuples with a string head), including t, pre-order"""
    if not isinstance(t, tuple) or not t:
        return
    if not isinstance(t[0], str):
        for x in t:
            yield from subterms(x)
        return
    yield t
    if t[0] == "poly":
        for m, _ in t[1]:
            for x in m:
                yield from subterms(x)
        return
    for x in t[1:]:
        if isinstance(x, tuple):
            yield from subterms(x)


def loaded_subterms(t):
    """sub-terms whose VALUE is used when t is evaluated: like subterms, except that the operand of an address-of is not
    loaded (&p[i] computes an address: p and i are used, p[i] is not read)"""
    if not isinstance(t, tuple) or not t:
        return
    if not isinstance(t[0], str):
        for x in t:
            yield from loaded_subterms(x)
        return
    if t[0] == "addr":
        yield t
        lv = t[1]
        while isinstance(lv, tuple) and lv and lv[0] in ("idx", "fld"):
            if lv[0] == "idx":
                yield from loaded_subterms(lv[2])
                # the pointer that is subscripted is loaded when it is itself stored somewhere (a field, an element)
                if lv[1][0] in ("fld", "idx"):
                    pass
            lv = lv[1]
        if isinstance(lv, tuple) and lv and lv[0] not in ("idx", "fld"):
            yield from loaded_subterms(lv)
        return
    yield t
    if t[0] == "poly":
        for m, _ in t[1]:
            for x in m:
                yield from loaded_subterms(x)
        return
    for x in t[1:]:
        if isinstance(x, tuple):
            yield from loaded_subterms(x)


def subst_loaded(t, mapping):
    """like subst, but an lvalue under an address-of is an address, not a value: &p[i] keeps p[i] (its subscript is rewritten)"""
    if not isinstance(t, tuple) or not t:
        return t
    if t[0] == "addr":
        lv = t[1]                   # the lvalue itself is not loaded; what it is built from (pointer, subscript) is
        if lv[0] == "idx":
            return addr(idx(subst_loaded(lv[1], mapping), subst_loaded(lv[2], mapping)))
        if lv[0] == "fld":
            inner = lv[1]
            if inner[0] == "idx":
                inner = idx(subst_loaded(inner[1], mapping), subst_loaded(inner[2], mapping))
            return addr(fld(inner, lv[2]))
        return t
    if t in mapping:
        return mapping[t]
    k = t[0]
    if not isinstance(k, str):
        return tuple(subst_loaded(x, mapping) for x in t)
    if k == "poly":
        r = ZERO
        for m, c in t[1]:
            prod = ("int", c)
            for x in m:
                prod = mul(prod, subst_loaded(x, mapping))
            r = add(r, prod)
        return r
    if k in ("int", "float", "str", "sym", "var", "glob", "unk"):
        return t
    if k == "idx":
        return idx(subst_loaded(t[1], mapping), subst_loaded(t[2], mapping))
    if k == "fld":
        return fld(subst_loaded(t[1], mapping), t[2])
    if k == "op":
        return binop(t[1], subst_loaded(t[2], mapping), subst_loaded(t[3], mapping))
    if k == "call":
        return ("call", t[1], tuple(subst_loaded(x, mapping) for x in t[2]))
    return tuple(subst_loaded(x, mapping) if isinstance(x, tuple) and x and isinstance(x[0], str) else x for x in t)


def trip_counts_nonneg(t):
    """rewrite every `$loop_end(0, X, 1, <)` (the end value of `for (i = 0; i < X; ++i)`) to X: valid where X >= 0, i.e. for
    the dimension terms of constructors and key generators (dimensions are >= 1 throughout)"""
    if not isinstance(t, tuple) or not t:
        return t
    m = {st: st[2][1] for st in subterms(t)
         if st[0] == "call" and st[1] == "$loop_end" and st[2][0] == ZERO and st[2][2] == I(1) and st[2][3] == I(0)}
    return rewrite(t, m) if m else t


def atoms_top(t):
    """atoms occurring as factors of the monomials of t (not their sub-terms)"""
    out = set()
    for m, _ in _as_poly(t).items():
        out.update(m)
    return out


def subst(t, mapping):
    """replace atoms/terms according to mapping (term -> term), re-normalising"""
    if t in mapping:
        return mapping[t]
    if not isinstance(t, tuple) or not t:
        return t
    k = t[0]
    if not isinstance(k, str):
        return tuple(subst(x, mapping) for x in t)
    if k == "poly":
        r = ZERO
        for m, c in t[1]:
            prod = ("int", c)
            for x in m:
                prod = mul(prod, subst(x, mapping))
            r = add(r, prod)
        return r
    if k in ("int", "float", "str", "sym", "var", "glob", "unk"):
        return t
    if k == "idx":
        return idx(subst(t[1], mapping), subst(t[2], mapping))
    if k == "fld":
        return fld(subst(t[1], mapping), t[2])
    if k == "addr":
        return addr(subst(t[1], mapping))
    if k == "op":
        return binop(t[1], subst(t[2], mapping), subst(t[3], mapping))
    if k == "call":
        return ("call", t[1], tuple(subst(x, mapping) for x in t[2]))
    return tuple(subst(x, mapping) if isinstance(x, tuple) and x and isinstance(x[0], str) else x for x in t)


# ---------------------------------------------------------------- lvalues / pointers
def addr(lv):
    if lv[0] == "idx" and lv[2] == ZERO:
        return lv[1]          # &p[0] == p
    return ("addr", lv)


def idx(p, i):
    # (&q[j])[i] == q[i+j]
    if p[0] == "addr" and p[1][0] == "idx":
        return ("idx", p[1][1], add(p[1][2], i))
    if p[0] == "addr" and i == ZERO:
        return p[1]
    return ("idx", p, i)


def fld(obj, f):
    return ("fld", obj, f)


def arrow(p, f):
    return fld(idx(p, ZERO), f)


def padd(p, i):
    if i == ZERO:
        return p
    return addr(idx(p, i))


def ptr_split(t):
    """pointer term -> (base pointer, element offset):  &P[k] -> (P, k),  P -> (P, 0)"""
    if isinstance(t, tuple) and t and t[0] == "addr" and t[1][0] == "idx":
        return t[1][1], t[1][2]
    return t, ZERO


def root_of(t):
    """the root symbol/var/global an lvalue or pointer term hangs off (None if unknown)"""
    while True:
        if t[0] in ("sym", "var", "glob", "new", "obj", "call", "unk", "str"):
            return t
        if t[0] in ("idx", "fld", "addr", "cast"):
            t = t[1] if t[0] != "cast" else t[2]
            continue
        return None


def path_of(t):
    """access path as a list: [root, step, step...] where step = '.f' or '[*]'"""
    steps = []
    while True:
        if t[0] in ("sym", "var", "glob", "new", "obj", "call", "unk", "int", "str"):
            return [t] + steps[::-1]
        if t[0] == "idx":
            steps.append("[*]" if t[2] != ZERO or True else "[0]")
            t = t[1]
        elif t[0] == "fld":
            steps.append("." + t[2])
            t = t[1]
        elif t[0] == "addr":
            t = t[1]
        elif t[0] == "cast":
            t = t[2]
        elif t[0] == "cond":
            t = t[2]
        else:
            return [("unk", "path")] + steps[::-1]


# ---------------------------------------------------------------- other ops
def _pow2(n):
    return n > 0 and (n & (n - 1)) == 0


def binop(op, a, b):
    if op == "+":
        return add(a, b)
    if op == "-":
        return sub(a, b)
    if op == "*":
        return mul(a, b)
    ca, cb = const_value(a), const_value(b)
    # a power of two written 1 << x is positive (shift amounts inside the word are the documented domain): 0 < (1 << x), (1 << x) >= 1
    p2 = lambda t_: isinstance(t_, tuple) and t_[0] == "op" and t_[1] == "<<" and t_[2] == ("int", 1)
    if op in ("<", "<=", ">", ">=", "!=", "==") and (p2(a) and cb is not None or p2(b) and ca is not None):
        lo_c, flip_ = (cb, False) if p2(a) else (ca, True)          # compare 2^x (>= 1) with the literal lo_c
        rel = {"<": ">", "<=": ">=", ">": "<", ">=": "<=", "!=": "!=", "==": "=="}[op] if flip_ else op
        if lo_c <= 0:
            if rel in (">", ">=", "!="):
                return I(1)
            if rel in ("<", "<=", "=="):
                return I(0)
        if lo_c == 1 and rel == ">=":
            return I(1)
        if lo_c == 1 and rel == "<":
            return I(0)
    if op == "/" and cb not in (None, 0) and ca is None:
        # exact division of a polynomial all of whose coefficients are multiples of the constant
        items = poly_items(a)
        if items and all(k % cb == 0 for _, k in items):
            return _from_poly({m: k // cb for m, k in items})
    if ca is not None and cb is not None:
        try:
            if op == "/":
                q = abs(ca) // abs(cb)
                return I(q if (ca >= 0) == (cb >= 0) else -q)
            if op == "%":
                q = abs(ca) // abs(cb)
                q = q if (ca >= 0) == (cb >= 0) else -q
                return I(ca - q * cb)
            if op == "<<":
                return I(ca << cb)
            if op == ">>":
                return I(ca >> cb)
            if op == "&":
                return I(ca & cb)
            if op == "|":
                return I(ca | cb)
            if op == "^":
                return I(ca ^ cb)
            if op == "<":
                return I(ca < cb)
            if op == "<=":
                return I(ca <= cb)
            if op == ">":
                return I(ca > cb)
            if op == ">=":
                return I(ca >= cb)
            if op == "==":
                return I(ca == cb)
            if op == "!=":
                return I(ca != cb)
            if op == "&&":
                return I(bool(ca) and bool(cb))
            if op == "||":
                return I(bool(ca) or bool(cb))
        except (ZeroDivisionError, ValueError):
            pass
    if op in ("==", "!=") and a == b:
        return I(op == "==")
    if op == "<<" and cb is not None and cb >= 0 and ca is None:
        # x << c  ==  x * 2^c  (mod 2^w): keep ring form so that weights compare
        return mul(a, I(1 << cb))
    if op == "&&":
        if ca is not None:
            return b if ca else I(0)
        if cb is not None:
            return a if cb else I(0)
    if op == "||":
        if ca is not None:
            return I(1) if ca else b
        if cb is not None:
            return I(1) if cb else a
    return ("op", op, a, b)


def unop(op, a):
    if op == "-":
        return neg(a)
    if op == "+":
        return a
    c = const_value(a)
    if c is not None:
        if op == "!":
            return I(not c)
        if op == "~":
            return I(~c)
    if op == "!" and isinstance(a, tuple) and a[0] == "op" and a[1] in _NEGATED:
        # integer comparisons have an exact complement (floating comparisons are "fop" terms and are left alone)
        return ("op", _NEGATED[a[1]], a[2], a[3])
    return ("un", op, a)


_NEGATED = {"==": "!=", "!=": "==", "<": ">=", ">=": "<", ">": "<=", "<=": ">"}


# ---------------------------------------------------------------- printing
def show(t):
    if not isinstance(t, tuple):
        return str(t)
    k = t[0]
    if k == "int":
        return str(t[1])
    if k == "float":
        return repr(t[1])
    if k == "str":
        return '"%s"' % t[1]
    if k == "sym":
        return t[1]
    if k == "var":
        return t[1]
    if k == "glob":
        return "::" + t[1]
    if k == "idx":
        if t[1][0] == "sym" and t[2] == ZERO:
            return "*" + show(t[1])
        return "%s[%s]" % (show(t[1]), show(t[2]))
    if k == "fld":
        if t[1][0] == "idx" and t[1][2] == ZERO:
            return "%s->%s" % (show(t[1][1]), t[2])
        return "%s.%s" % (show(t[1]), t[2])
    if k == "addr":
        return "&" + show(t[1])
    if k == "poly":
        parts = []
        for m, c in t[1]:
            ms = "*".join(show(x) if x[0] not in ("poly", "op") else "(" + show(x) + ")" for x in m)
            if not m:
                parts.append(str(c))
            elif c == 1:
                parts.append(ms)
            elif c == -1:
                parts.append("-" + ms)
            else:
                parts.append("%d*%s" % (c, ms))
        s = " + ".join(parts).replace("+ -", "- ")
        return s
    if k == "op":
        return "(%s %s %s)" % (show(t[2]), t[1], show(t[3]))
    if k == "fop":
        return "(%s %s. %s)" % (show(t[2]), t[1], show(t[3]))
    if k == "un":
        return "%s(%s)" % (t[1], show(t[2]))
    if k == "cast":
        return "(%s)(%s)" % (t[1], show(t[2]))
    if k == "call":
        return "%s(%s)" % (t[1], ", ".join(show(x) for x in t[2]))
    if k == "cond":
        return "(%s ? %s : %s)" % (show(t[1]), show(t[2]), show(t[3]))
    if k == "new":
        return "new %s%s" % (t[1], "[%s]" % show(t[2]) if t[2] is not None else "")
    if k == "unk":
        return "?%s" % (t[1],)
    if k == "obj":
        return "%s(%s)" % (t[1], ", ".join(show(x) for x in t[2]))
    return repr(t)


def rewrite(t, mapping, depth=0):
    """bottom-up rewriting to a fixpoint: children first, then look the rebuilt term up in mapping"""
    if not isinstance(t, tuple) or not t:
        return t
    k = t[0]
    if not isinstance(k, str):
        return tuple(rewrite(x, mapping, depth) for x in t)
    if k in ("int", "float", "str", "sym", "var", "glob", "unk"):
        r = t
    elif k == "poly":
        r = ZERO
        for m, c in t[1]:
            prod = ("int", c)
            for x in m:
                prod = mul(prod, rewrite(x, mapping, depth))
            r = add(r, prod)
    elif k == "idx":
        r = idx(rewrite(t[1], mapping, depth), rewrite(t[2], mapping, depth))
    elif k == "fld":
        r = fld(rewrite(t[1], mapping, depth), t[2])
    elif k == "addr":
        r = addr(rewrite(t[1], mapping, depth))
    elif k == "op":
        r = binop(t[1], rewrite(t[2], mapping, depth), rewrite(t[3], mapping, depth))
    elif k in ("obj", "new", "prop", "title"):
        r = t
    else:
        r = tuple(rewrite(x, mapping, depth) if isinstance(x, tuple) else x for x in t)
    if r in mapping and depth < 8:
        nr = mapping[r]
        if nr != r:
            return rewrite(nr, mapping, depth + 1)
    return r


def fold(t, load=None):
    """bottom-up constant folding: conditionals whose condition is a literal pick their branch, operators re-normalise; `load`
    (lvalue term -> value term or None) resolves element loads, e.g. from a local table of constants (summ.table_loader)"""
    if not isinstance(t, tuple) or not t:
        return t
    k = t[0]
    if not isinstance(k, str):
        return tuple(fold(x, load) for x in t)
    if k in ("int", "float", "str", "sym", "var", "glob", "unk", "obj", "new", "prop", "title"):
        return t
    if k == "poly":
        r = ZERO
        for m, c in t[1]:
            prod = ("int", c)
            for x in m:
                prod = mul(prod, fold(x, load))
            r = add(r, prod)
        return r
    if k == "cond":
        c = fold(t[1], load)
        if c[0] == "int":
            return fold(t[2] if c[1] else t[3], load)
        return ("cond", c, fold(t[2], load), fold(t[3], load))
    if k == "idx":
        r = idx(fold(t[1], load), fold(t[2], load))
        if load is not None:
            v = load(r)
            if v is not None:
                return fold(v, load)
        return r
    if k == "fld":
        return fld(fold(t[1], load), t[2])
    if k == "addr":
        return addr(fold(t[1], load))
    if k == "op":
        return binop(t[1], fold(t[2], load), fold(t[3], load))
    if k == "un":
        return unop(t[1], fold(t[2], load))
    if k == "cast":
        x = fold(t[2], load)
        return x if x[0] == "int" and "bool" in str(t[1]) and x[1] in (0, 1) else ("cast", t[1], x)
    if k == "call":
        r = ("call", t[1], tuple(fold(x, load) for x in t[2])) + tuple(t[3:])
        if t[1] == "$loop_end" and all(x[0] == "int" for x in r[2]):
            from .secretflow import eval_term          # the exit value of a counted loop with literal bounds
            val = eval_term(r, {})
            if val is not None:
                return ("int", val)
        return r
    return tuple(fold(x, load) if isinstance(x, tuple) else x for x in t)
