"""A1 — public API surface and roles of public functions.

The role of a public function is an oracle (what the API documents); it is a table of
name patterns over the declarations found in the public headers, printed in evidence.
A public function matching no pattern, or two, makes the run exit 2.
"""
import re

from .pipeline import AnalysisBroken

ROLE_PATTERNS = [
    ("io", r"^(export_|import_)|_from(File|Stream)$"),
    ("parameters", r"^new_default_gate_bootstrapping_parameters$"),
    ("generation", r"(KeyGen$|SymEncrypt|EncryptZero$|EncryptB$|[cC]reate.*Key|CreateBootstrappingKey|"
                   r"^new_random_|^gaussian32$|Uniform$|setSeed$|createKeySwitchKey|CreateKeySwitchKey|"
                   r"ExtractKey$|^new_tfheGateBootstrappingSecretKeySet$|^new_random_gate_bootstrapping_secret_keyset$)"),
    ("lifecycle", r"^(alloc|free|init|destroy|new|delete)_"),
]


def public_functions(v):
    """declarations located in src/include with C linkage or not (all free functions)"""
    out = {}
    for usr, f in v.decls.items():
        if usr in v.header_decl and f.get("kind") == "function":
            out[usr] = f
    return out


def role_of(name):
    hits = [r for r, pat in ROLE_PATTERNS if re.search(pat, name)]
    if "io" in hits:
        return "io"
    if "parameters" in hits:
        return "parameters"
    if "generation" in hits:
        return "generation"
    if "lifecycle" in hits:
        return "lifecycle"
    return "evaluation"


def roles(v):
    out = {}
    for usr, f in public_functions(v).items():
        out[usr] = role_of(f.name)
    return out


IO_EXPORT = re.compile(r"^export_(.+)_to(File|Stream)$")
IO_IMPORT = re.compile(r"^(new|import)_(.+)_from(File|Stream)$")


def io_pairs(v):
    """{(type name, transport): {"w": Function, "r": Function}} from the public headers"""
    pairs = {}
    for f in public_functions(v).values():
        m = IO_EXPORT.match(f.name)
        if m:
            pairs.setdefault((m.group(1), m.group(2)), {})["w"] = f
        m = IO_IMPORT.match(f.name)
        if m:
            pairs.setdefault((m.group(2), m.group(3)), {})["r"] = f
    bad = [k for k, p in pairs.items() if set(p) != {"w", "r"}]
    if bad:
        raise AnalysisBroken("unpaired serialisation entry points: %s" % bad)
    return pairs
