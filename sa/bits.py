"""A5 — power-of-two / bit-field algebra on sym terms.

  pow2_exp(t)      exponent e (a term) when t == 2^e        (1 << e, integer powers of two, products, pow2/pow2)
  mask_width(t)    w when t == 2^w - 1
  field_of(t)      (x, shift, width) when t == (x >> shift) & (2^width - 1)
  rounding forms   (x + 2^(s-1)) >> s
Exponents are affine terms over symbols (basebit, Bgbit, t, l, m, loop variables); identities are decided by
normalising exponent polynomials, never by enumeration.
"""
from . import sym
from .sym import I, ZERO


def _ilog2(n):
    return n.bit_length() - 1 if n > 0 and n & (n - 1) == 0 else None


def pow2_exp(t, env=None):
    """exponent term e with t == 2^e, or None.  env maps atoms to their pow2 exponent (e.g. Msize -> m)"""
    env = env or {}
    if t in env:
        return env[t]
    if t[0] == "int":
        k = _ilog2(t[1])
        return I(k) if k is not None else None
    if t[0] == "op" and t[1] == "<<":
        a = pow2_exp(t[2], env)
        if a is not None:
            return sym.add(a, t[3])
        return None
    if t[0] == "op" and t[1] == "/":
        a, b = pow2_exp(t[2], env), pow2_exp(t[3], env)
        if a is not None and b is not None:
            return sym.sub(a, b)          # exact when a >= b (side condition checked by the caller)
        return None
    if t[0] == "op" and t[1] == ">>":
        a = pow2_exp(t[2], env)
        if a is not None:
            return sym.sub(a, t[3])
        return None
    if t[0] == "poly":
        items = t[1]
        if len(items) == 1:
            mono, c = items[0]
            k = _ilog2(c)
            if k is None:
                return None
            e = I(k)
            for a in mono:
                ea = pow2_exp(a, env)
                if ea is None:
                    return None
                e = sym.add(e, ea)
            return e
        return None
    if t[0] == "cast":
        return pow2_exp(t[2], env)
    return None


def mask_width(t, env=None):
    """w with t == 2^w - 1"""
    if t[0] == "int":
        k = _ilog2(t[1] + 1)
        return I(k) if k is not None else None
    if t[0] == "cast":
        return mask_width(t[2], env)
    one_more = sym.add(t, I(1))
    return pow2_exp(one_more, env)


def field_of(t, env=None, word=32):
    """(x, shift, width) for (x >> shift) & mask"""
    if t[0] == "cast":
        return field_of(t[2], env, word)
    if t[0] == "op" and t[1] == "&":
        for a, b in ((t[2], t[3]), (t[3], t[2])):
            w = mask_width(b, env)
            if w is None:
                continue
            x = a
            while x[0] == "cast":
                x = x[2]
            if x[0] == "op" and x[1] == ">>":
                y = x[2]
                while y[0] == "cast":
                    y = y[2]
                if y[0] == "op" and y[1] == "<<" and sym.add(x[3], w) == I(word):
                    # ((y << s) >> r) & (2^w - 1) on a `word`-bit unsigned value with r + w == word: the top w bits of
                    # y << s are bits [r - s, r - s + w) of y  ==  (y >> (r - s)) & (2^w - 1)
                    return y[2], sym.sub(x[3], y[3]), w
                return x[2], x[3], w
            return x, ZERO, w
    return None


def split_weight(t, env=None):
    """t == c * 2^e * rest  ->  (rest term, e)  for the single-monomial products used as weights/messages"""
    if t[0] == "poly" and len(t[1]) == 1:
        mono, c = t[1][0]
        e = ZERO
        rest = []
        k = _ilog2(abs(c)) if c else None
        coef = c
        if k is not None:
            e = I(k)
            coef = 1 if c > 0 else -1
        for a in mono:
            ea = pow2_exp(a, env)
            while a[0] == "cast":
                a = a[2]
            if ea is not None:
                e = sym.add(e, ea)
            elif a[0] == "op" and a[1] == "<<":
                # (x << s) = x * 2^s modulo the word: the shifted factor joins the product, the shift joins the weight
                r2, e2 = split_weight(a[2], env)
                e = sym.add(e, sym.add(e2, a[3]))
                rest.append(r2)
            else:
                rest.append(a)
        r = I(coef)
        for a in rest:
            r = sym.mul(r, a)
        return r, e
    e = pow2_exp(t, env)
    if e is not None:
        return I(1), e
    if t[0] == "op" and t[1] == "<<":
        r2, e2 = split_weight(t[2], env)
        return r2, sym.add(e2, t[3])
    return t, ZERO


def tiling(shift_of_j, width, j, count, top=32):
    """fields [shift(j), shift(j)+width), j in [0,count): adjacent, descending from `top`.
    -> (ok, detail, lowest bit term)"""
    s0 = sym.subst(shift_of_j, {j: ZERO})
    s1 = sym.subst(shift_of_j, {j: sym.add(j, I(1))})
    step = sym.sub(shift_of_j, s1)
    if step != width:
        return False, "consecutive fields are %s bits apart but %s bits wide (gap or overlap)" % (sym.show(step), sym.show(width)), None
    if sym.add(s0, width) != I(top):
        return False, "the first field ends at bit %s, not at bit %d" % (sym.show(sym.add(s0, width)), top), None
    lowest = sym.subst(shift_of_j, {j: sym.sub(count, I(1))})
    return True, "fields [%s, +%s) for j < %s tile bits [%s, %d)" % (sym.show(shift_of_j), sym.show(width), sym.show(count), sym.show(lowest), top), lowest


def normalize(t, env=None):
    """rewrite every power-of-two factor of every monomial as the atom ("2^", exponent): terms that denote the same
    value for power-of-two parameters get the same normal form"""
    env = env or {}
    if not isinstance(t, tuple) or not t:
        return t
    if t[0] in ("int", "sym", "var", "glob", "float", "str", "unk"):
        e = pow2_exp(t, env) if t[0] != "int" or t[1] > 1 else None
        if e is not None and t[0] != "int":
            return ("2^", e)
        return t
    e = pow2_exp(t, env)
    if e is not None and t[0] != "int":
        return ("2^", e)
    if t[0] == "poly":
        out = ZERO
        for mono, c in t[1]:
            expo = ZERO
            rest = I(c)
            for a in mono:
                ea = pow2_exp(a, env)
                if ea is not None:
                    expo = sym.add(expo, ea)
                else:
                    rest = sym.mul(rest, normalize(a, env))
            cv = sym.const_value(rest)
            if cv is not None and cv > 0 and _ilog2(cv) is not None and (expo != ZERO or _ilog2(cv) > 0):
                expo = sym.add(expo, I(_ilog2(cv)))
                rest = I(1)
            if expo != ZERO:
                rest = sym.mul(rest, ("2^", expo))
            out = sym.add(out, rest)
        return out
    if t[0] == "op":
        return ("op", t[1], normalize(t[2], env), normalize(t[3], env))
    if t[0] == "cast":
        return normalize(t[2], env)
    return t


def slice_of(t, env, facts, word=64):
    """(X, a, b, c) with  t == ((X >> a) mod 2^(b-a)) << c  for an unsigned `word`-bit quantity X: the bit range [a, b) of X
    placed at bit c.  Understands x >> k, x / 2^k, x << k, x * 2^k, x % 2^k, x - x % 2^k and (x / 2^k) * 2^j (power-of-two
    constants through env, exponents compared with the affine prover under `facts`).  Everything else is a base X with
    the full range.  None when a comparison of exponents cannot be decided."""
    from . import affine
    nonneg = lambda e: affine.prove_nonneg(e, facts)
    W = I(word)

    def shl(sl, k):
        X, a, b, c = sl
        c2 = sym.add(c, k)
        top = sym.add(c2, sym.sub(b, a))
        if nonneg(sym.sub(W, top)):
            return X, a, b, c2
        if nonneg(sym.sub(top, W)):
            return X, a, sym.sub(sym.add(a, W), c2), c2       # the bits pushed beyond the word are lost
        return None

    def shr(sl, k):
        X, a, b, c = sl
        if nonneg(sym.sub(c, k)):
            return X, a, b, sym.sub(c, k)
        if nonneg(sym.sub(k, c)):
            return X, sym.add(a, sym.sub(k, c)), b, ZERO
        return None

    def rec(t):
        while t[0] == "cast":
            t = t[2]
        if t[0] == "op" and t[1] in (">>", "/"):
            k = t[3] if t[1] == ">>" else pow2_exp(t[3], env)
            sl = rec(t[2]) if k is not None else None
            return shr(sl, k) if sl is not None else ((t, ZERO, W, ZERO) if k is None else None)
        if t[0] == "op" and t[1] == "<<":
            sl = rec(t[2])
            return shl(sl, t[3]) if sl is not None else None
        if t[0] == "op" and t[1] == "%":
            k = pow2_exp(t[3], env)
            if k is None:
                return t, ZERO, W, ZERO
            sl = rec(t[2])
            if sl is None or sl[3] != ZERO:
                return None
            X, a, b, c = sl
            if nonneg(sym.sub(sym.sub(b, a), k)):
                return X, a, sym.add(a, k), ZERO
            if nonneg(sym.sub(k, sym.sub(b, a))):
                return sl
            return None
        if t[0] == "poly":
            items = sym.poly_items(t)
            mods = [a for a in sym.atoms_top(t) if a[0] == "op" and a[1] == "%"]
            if len(mods) == 1 and sym.add(t, mods[0]) == mods[0][2]:
                k = pow2_exp(mods[0][3], env)           # y - y % 2^k == (y >> k) << k
                sl = rec(mods[0][2]) if k is not None else None
                if sl is not None:
                    sl = shr(sl, k)
                    return shl(sl, k) if sl is not None else None
            if len(items) == 1:
                mono, coef = items[0]
                e = _ilog2(coef) if coef > 0 else None
                rest = []
                if e is not None:
                    expo = I(e)
                    for a in mono:
                        ea = pow2_exp(a, env)
                        if ea is not None:
                            expo = sym.add(expo, ea)
                        else:
                            rest.append(a)
                    if len(rest) == 1 and (expo != ZERO or rest[0] != t):
                        sl = rec(rest[0])
                        return shl(sl, expo) if sl is not None else None
        return t, ZERO, W, ZERO
    return rec(t)
