"""A9 — AT&T x86-64 assembly front end (the subset tfhe uses): parser, CFG/loops, register
dataflow for struct displacements, strip-mined loop classification, lane-symbolic evaluation.

Nothing here executes machine code; instructions are interpreted symbolically.
"""
import re

from . import sym
from .pipeline import AnalysisBroken

REG64 = ["rax", "rbx", "rcx", "rdx", "rsi", "rdi", "rbp", "rsp", "r8", "r9", "r10", "r11", "r12", "r13", "r14", "r15"]
SUB = {}
for r in REG64:
    SUB[r] = (r, 8)
for a, b in (("eax", "rax"), ("ebx", "rbx"), ("ecx", "rcx"), ("edx", "rdx"), ("esi", "rsi"), ("edi", "rdi"),
             ("ebp", "rbp"), ("esp", "rsp")):
    SUB[a] = (b, 4)
for i in range(8, 16):
    SUB["r%dd" % i] = ("r%d" % i, 4)
ARGREGS = ["rdi", "rsi", "rdx", "rcx", "r8", "r9"]

KNOWN = set("""
nop movq movl mov leaq addq add incq subq subl sub andq shl shr shlq shrq cmpq cmp testq test
jb jae jbe ja je jne jz jnz jl jle jg jge jmp pushq popq retq ret
vmovapd vmovupd vmovdqu vmovdqa vmovd vmovq vmulpd vaddpd vsubpd vaddsubpd vfmadd231pd vfmsub231pd
vfnmadd231pd vfnmsub231pd vshufpd vperm2f128 vzeroall vzeroupper vpaddd vpsubd vpand vpsrld vpxor
vpbroadcastd psubd vcvtdq2pd vcvtsi2sd vcvtsi2sdq vbroadcastsd vxorpd vunpcklpd vunpckhpd vpermpd vextractf128
vinsertf128 vpermilpd vblendpd vmovddup vcvtpd2dq vcvttpd2dq vroundpd vpslld vpor vpshufd vcvtdq2pdx
vmovsd vmulsd vaddsd vsubsd vmovhpd vmovlpd
""".split())

JCC = {"jb", "jae", "jbe", "ja", "je", "jne", "jz", "jnz", "jl", "jle", "jg", "jge"}


class Ins:
    __slots__ = ("op", "args", "line", "raw")

    def __init__(self, op, args, line, raw):
        self.op, self.args, self.line, self.raw = op, args, line, raw

    def __repr__(self):
        return "%s %s" % (self.op, ", ".join(fmt_arg(a) for a in self.args))


def fmt_arg(a):
    if a[0] == "reg":
        return "%" + a[1]
    if a[0] == "imm":
        return "$%s" % a[1]
    if a[0] == "mem":
        return "%s(%s%s)" % (a[1] if a[1] else "", "%" + a[2] if a[2] else "",
                             ",%%%s,%d" % (a[3], a[4]) if a[3] else "")
    return str(a[1])


def _strip_comments(text):
    text = re.sub(r"/\*.*?\*/", " ", text, flags=re.S)
    out = []
    for line in text.split("\n"):
        line = re.sub(r"//.*$", "", line)
        if line.lstrip().startswith("#"):
            line = ""
        out.append(line)
    return "\n".join(out)


def _parse_arg(s):
    s = s.strip()
    if s.startswith("$"):
        v = s[1:]
        try:
            return ("imm", int(v, 0))
        except ValueError:
            return ("imm", v)
    if s.startswith("%") and "(" not in s:
        return ("reg", s[1:])
    m = re.match(r"^([^()]*)\(([^)]*)\)$", s)
    if m:
        disp = m.group(1).strip()
        parts = [p.strip() for p in m.group(2).split(",")]
        base = parts[0][1:] if parts[0].startswith("%") else (parts[0] or None)
        index = parts[1][1:] if len(parts) > 1 and parts[1].startswith("%") else None
        scale = int(parts[2]) if len(parts) > 2 and parts[2] else 1
        try:
            d = int(disp, 0) if disp else 0
        except ValueError:
            d = disp     # symbol(%rip)
        return ("mem", d, base, index, scale)
    return ("label", s)


def _split_args(s):
    out, depth, cur = [], 0, ""
    for ch in s:
        if ch == "(":
            depth += 1
        elif ch == ")":
            depth -= 1
        if ch == "," and depth == 0:
            out.append(cur)
            cur = ""
        else:
            cur += ch
    if cur.strip():
        out.append(cur)
    return out


def parse(text):
    """-> list of ("label", name, line) | ("dir", name, rest, line) | Ins"""
    items = []
    text = _strip_comments(text)
    for ln, line in enumerate(text.split("\n"), 1):
        for stmt in line.split(";"):
            stmt = stmt.strip()
            while True:
                m = re.match(r"^([.\w$]+):\s*(.*)$", stmt)
                if not m:
                    break
                items.append(("label", m.group(1), ln))
                stmt = m.group(2).strip()
            if not stmt:
                continue
            if stmt.startswith("."):
                parts = stmt.split(None, 1)
                items.append(("dir", parts[0], parts[1] if len(parts) > 1 else "", ln))
                continue
            parts = stmt.split(None, 1)
            op = parts[0].lower()
            args = [_parse_arg(a) for a in _split_args(parts[1])] if len(parts) > 1 else []
            items.append(Ins(op, args, ln, stmt))
    return items


def globals_of(text):
    return [it[2].strip() for it in parse(text) if isinstance(it, tuple) and it[0] == "dir"
            and it[1] in (".globl", ".global") and not it[2].strip().startswith("_")]


def functions_of(text):
    """global label -> list of items up to the next global label / .size"""
    items = parse(text)
    globs = set(globals_of(text))
    out, cur = {}, None
    for it in items:
        if isinstance(it, tuple) and it[0] == "label" and it[1] in globs:
            cur = it[1]
            out[cur] = []
            continue
        if cur is not None:
            if isinstance(it, tuple) and it[0] == "dir" and it[1] == ".size":
                cur = None
                continue
            out[cur].append(it)
    return out


def inline_items(template):
    """items of a GCC inline-asm template (%%reg -> %reg, %N placeholders kept as registers named %N)"""
    t = template.replace("%%", "\x00")
    t = re.sub(r"%(\d+)", lambda m: "\x00op%s" % m.group(1), t)
    t = re.sub(r"%\[(\w+)\]", lambda m: "\x00op_%s" % m.group(1), t)
    t = t.replace("\x00", "%")
    return parse(t.replace("\\n", "\n"))


def check_mnemonics(items, where):
    bad = sorted({it.op for it in items if isinstance(it, Ins) and it.op not in KNOWN})
    if bad:
        raise AnalysisBroken("unknown mnemonic(s) %s in %s" % (bad, where))


# ------------------------------------------------------------------------------ CFG / loops
def resolve_label(items, idx, ref):
    """index of the label a jump at items[idx] refers to (supports numeric 1b / 1f)"""
    m = re.match(r"^(\d+)([bf])$", ref)
    if m:
        rng = range(idx - 1, -1, -1) if m.group(2) == "b" else range(idx + 1, len(items))
        for j in rng:
            it = items[j]
            if isinstance(it, tuple) and it[0] == "label" and it[1] == m.group(1):
                return j
        return None
    for j, it in enumerate(items):
        if isinstance(it, tuple) and it[0] == "label" and it[1] == ref:
            return j
    return None


def loops_of(items):
    """backward conditional jumps: [{"head": idx of label, "tail": idx of jcc, "jcc": op, "body": [Ins...]}]"""
    out = []
    for i, it in enumerate(items):
        if isinstance(it, Ins) and (it.op in JCC or it.op == "jmp") and it.args and it.args[0][0] == "label":
            j = resolve_label(items, i, it.args[0][1])
            if j is not None and j < i:
                body = [x for x in items[j:i + 1] if isinstance(x, Ins)]
                out.append({"head": j, "tail": i, "jcc": it.op, "body": body, "label": items[j][1]})
    return out


def is_mem(a):
    return a[0] == "mem"


def mem_accesses(body):
    """(ins, arg index, is_store) for memory operands; in AT&T the last operand is the destination"""
    out = []
    for ins in body:
        if ins.op in ("leaq",):
            continue
        for k, a in enumerate(ins.args):
            if is_mem(a):
                store = (k == len(ins.args) - 1) and not ins.op.startswith(("cmp", "test"))
                out.append((ins, k, store))
    return out


def classify_loop(items, lp):
    """bottom-tested iff no conditional exit leaves the loop before its first memory access"""
    first_mem = None
    exit_before = False
    for x in items[lp["head"]:lp["tail"] + 1]:
        if not isinstance(x, Ins):
            continue
        if any(is_mem(a) for a in x.args) and x.op != "leaq":
            first_mem = x
            break
        if x.op in JCC:
            exit_before = True
            break
    # a guard immediately before the loop head: cmp/test + forward jump over the loop
    guarded = False
    k = lp["head"] - 1
    seen = 0
    while k >= 0 and seen < 6:
        x = items[k]
        if isinstance(x, Ins):
            seen += 1
            if x.op in JCC and x.args and x.args[0][0] == "label":
                tgt = resolve_label(items, k, x.args[0][1])
                if tgt is not None and tgt > lp["tail"]:
                    guarded = True
                break
            if x.op in ("jmp", "retq", "ret"):
                break
        k -= 1
    return {"bottom_tested": not exit_before, "guarded": guarded, "first_mem": first_mem}


def pointer_strides(body):
    """register -> total constant added per iteration (addq $c,%r / subq / incq / leaq c(%r),%r)"""
    st = {}
    for ins in body:
        if ins.op in ("addq", "add", "subq", "sub") and len(ins.args) == 2 and ins.args[0][0] == "imm" and \
                ins.args[1][0] == "reg" and isinstance(ins.args[0][1], int):
            r = SUB.get(ins.args[1][1], (ins.args[1][1], 8))[0]
            st[r] = st.get(r, 0) + (ins.args[0][1] if ins.op.startswith("add") else -ins.args[0][1])
        elif ins.op == "incq" and ins.args[0][0] == "reg":
            st[ins.args[0][1]] = st.get(ins.args[0][1], 0) + 1
        elif ins.op == "leaq" and ins.args[0][0] == "mem" and ins.args[1][0] == "reg" and \
                ins.args[0][2] == ins.args[1][1] and ins.args[0][3] is None and isinstance(ins.args[0][1], int):
            st[ins.args[1][1]] = st.get(ins.args[1][1], 0) + ins.args[0][1]
    return st


# ------------------------------------------------------------------------------ register dataflow (prologue)
def straightline_regs(items, upto=None, init=None):
    """symbolic register contents along the straight-line prefix of a function (stops at the first
    label that is a jump target or at `upto`).  Values: sym terms over ("sym","argN") and loads."""
    regs = dict(init or {})
    loads = []     # (ins, base term, disp, width)
    for k, it in enumerate(items):
        if upto is not None and k >= upto:
            break
        if isinstance(it, tuple):
            if it[0] == "label":
                break
            continue
        ins = it
        op = ins.op

        def val(a, width=8):
            if a[0] == "reg":
                r, w = SUB.get(a[1], (a[1], 8))
                return regs.get(r, ("sym", "?" + r))
            if a[0] == "imm":
                return sym.I(a[1]) if isinstance(a[1], int) else ("sym", str(a[1]))
            if a[0] == "mem":
                base = regs.get(a[2], ("sym", "?%s" % a[2])) if a[2] else sym.ZERO
                if a[3] is not None:
                    return ("unk", "indexed-load")
                loads.append((ins, base, a[1], width))
                return ("load", base, a[1], width)
            return ("unk", "label")

        def addr(a):
            base = regs.get(a[2], ("sym", "?%s" % a[2])) if a[2] else sym.ZERO
            t = ("ea", base, a[1] if isinstance(a[1], int) else 0,
                 regs.get(a[3], ("sym", "?%s" % a[3])) if a[3] else None, a[4])
            return t

        if op in ("movq", "movl", "mov") and len(ins.args) == 2 and ins.args[1][0] == "reg":
            dst = ins.args[1][1]
            r, w = SUB.get(dst, (dst, 8))
            width = 4 if op == "movl" or w == 4 else 8
            if dst.startswith(("xmm", "ymm")):
                continue
            regs[r] = val(ins.args[0], width)
        elif op == "leaq" and ins.args[1][0] == "reg":
            regs[ins.args[1][1]] = addr(ins.args[0])
        elif op in ("pushq", "popq"):
            if op == "popq" and ins.args[0][0] == "reg":
                regs.pop(ins.args[0][1], None)
        elif op in ("shr", "shrq", "shl", "shlq", "addq", "add", "subq", "sub", "andq", "incq") and ins.args and \
                ins.args[-1][0] == "reg":
            r = SUB.get(ins.args[-1][1], (ins.args[-1][1], 8))[0]
            regs[r] = ("arith", op, regs.get(r, ("sym", "?" + r)), val(ins.args[0]) if len(ins.args) == 2 else None)
        elif op.startswith("v") or op in ("psubd",):
            for a in ins.args[:-1]:
                if a[0] == "mem":
                    val(a, 32)
        elif op in JCC or op == "jmp" or op in ("retq", "ret"):
            break
    return regs, loads


def initial_args(n=6):
    return {r: ("sym", "arg%d" % i) for i, r in enumerate(ARGREGS[:n])}


# ------------------------------------------------------------------------------ C20.R5 / R6
# Roles of the displacements the Lagrange kernels and FFT kernels use, confirmed by reading the sources;
# the field *names* are the oracle (assembly has none), offsets and widths come from the record layouts.
LAGRANGE_KERNELS = ("LagrangeHalfCPolynomialMul", "LagrangeHalfCPolynomialAddMul", "LagrangeHalfCPolynomialSubMul")


def _field_at(rec, off):
    for f in rec["fields"]:
        if f["offset"] == off:
            return f
    return None


def check_c20_offsets(chk, prog):
    nker = 0
    for v in prog.variants():
        vn = v.name
        impl = v.records.get("LagrangeHalfCPolynomial_IMPL")
        pub = v.records.get("LagrangeHalfCPolynomial")
        if impl is None or pub is None:
            raise AnalysisBroken("LagrangeHalfCPolynomial(_IMPL) record missing in %s" % vn)
        # R6: the private record must fit in, and be no more aligned than, the public opaque record
        chk.require(impl["size"] <= pub["size"] and impl["align"] <= pub["align"], "R6",
                    "LagrangeHalfCPolynomial_IMPL fits the public LagrangeHalfCPolynomial", where=impl["loc"],
                    ok="impl size %d align %d <= public size %d align %d" % (impl["size"], impl["align"], pub["size"], pub["align"]),
                    bad="impl size %d align %d vs public size %d align %d: alloc_LagrangeHalfCPolynomial under-allocates" % (
                        impl["size"], impl["align"], pub["size"], pub["align"]), variant=vn)
        chk.require(not impl.get("polymorphic"), "R6", "LagrangeHalfCPolynomial_IMPL has no vtable", where=impl["loc"],
                    ok="plain record", bad="polymorphic", variant=vn, nontrivial=False)
        for u in v.asm_units:
            text = prog.asm_text(u)
            fns = functions_of(text)
            for name, items in fns.items():
                check_mnemonics(items, "%s:%s" % (u["file"], name))
                if name not in LAGRANGE_KERNELS:
                    continue
                nker += 1
                regs, loads = straightline_regs(items, init=initial_args(3))
                where = "%s:%s" % (u["file"], name)
                procrec = None
                for ins, base, disp, width in loads:
                    if base[0] == "sym" and base[1].startswith("arg"):
                        f = _field_at(impl, disp)
                        key = "%s: %s reads a field of LagrangeHalfCPolynomial_IMPL" % (name, ins.raw.split("/*")[0].strip())
                        if f is None or f["size"] != width:
                            chk.refuted("R5", key, where="%s line %d" % (where, ins.line),
                                        detail="no %d-byte field at offset %s (layout: %s)" % (
                                            width, disp, [(x["n"], x["offset"], x["size"]) for x in impl["fields"]]), variant=vn)
                            continue
                        want = {0: "coefsC", 8: "proc"}.get(disp)
                        chk.require(f["n"] == want, "R5", key, where="%s line %d" % (where, ins.line),
                                    ok="offset %d is %s (%s)" % (disp, f["n"], f["t"]),
                                    bad="offset %d holds '%s', the kernel expects '%s'" % (disp, f["n"], want), variant=vn)
                        if f["n"] == "proc":
                            pr = re.sub(r"[ *]|const", "", f["t"])
                            procrec = v.records.get(pr)
                    elif base[0] == "load" and base[1][0] == "sym" and base[2] == 8:
                        key = "%s: %s reads the loop bound from the FFT processor" % (name, ins.raw.split("/*")[0].strip())
                        if procrec is None:
                            chk.assumed("R5", key, where=where, detail="processor record not resolved", variant=vn)
                            continue
                        f = _field_at(procrec, disp)
                        ok = f is not None and f["n"] == "Ns2" and f["size"] == width
                        chk.require(ok, "R5", key, where="%s line %d" % (where, ins.line),
                                    ok="offset %d of %s is Ns2 (%d bytes)" % (disp, procrec["name"], width),
                                    bad="offset %d of %s is %s; the kernel needs the %d-byte half-degree Ns2" % (
                                        disp, procrec["name"], (f["n"], f["size"]) if f else None, width), variant=vn)
    chk.set_count("R5.lagrange_asm_kernels", nker)
    check_fft_tables(chk, prog)


def check_fft_tables(chk, prog):
    """the FFT kernels read {n, trig table} at 0/8 of the opaque tables argument; the C side that builds the
    tables must lay them out the same way (the anonymous struct in the table builder)"""
    for v in prog.variants():
        vn = v.name
        for u in v.asm_units:
            fns = functions_of(prog.asm_text(u))
            for name, items in fns.items():
                if name in LAGRANGE_KERNELS:
                    continue
                regs, loads = straightline_regs(items, init=initial_args(3))
                disps = sorted({(d, w) for ins, base, d, w in loads if _derives_from(base, "arg0") and isinstance(d, int)})
                # candidate table records: records named by the table builder of the same back-end
                import os
                d0 = os.path.dirname(u["file"])
                cands = [r for r in v.records.values() if os.path.dirname(r["file"]) == d0
                         and r["kind"] == "struct" and len(r["fields"]) >= 2 and not r.get("polymorphic")
                         and ("anonymous" in r["name"] or "able" in r["name"] or "PRECOMP" in r["name"])]
                key = "%s: table displacements %s match the table record built by the C side" % (name, disps)
                if not cands:
                    chk.assumed("R5", key, where=u["file"], detail="table record is built with raw pointer arithmetic; "
                                "no record layout to compare with", variant=vn)
                    continue
                ok = any(all(_field_at(r, d) is not None and _field_at(r, d)["size"] == w for d, w in disps) for r in cands)
                chk.require(ok, "R5", key, where=u["file"],
                            ok="a table record has fields at exactly these offsets and widths",
                            bad="no table record has fields at %s: %s" % (disps, [(r["name"], [(f["n"], f["offset"], f["size"]) for f in r["fields"]]) for r in cands]),
                            variant=vn)
                chk.count("R5.fft_asm_kernels")


def _derives_from(t, argname):
    while isinstance(t, tuple):
        if t == ("sym", argname):
            return True
        if t[0] in ("load", "ea", "arith"):
            t = t[1] if t[0] != "arith" else t[2]
            continue
        return False
    return False


# ------------------------------------------------------------------------------ inline asm effects
CONSTRAINT_REG = {"D": "rdi", "S": "rsi", "d": "rdx", "a": "rax", "c": "rcx", "b": "rbx"}


def inline_operand_regs(node):
    """operand index -> register name used in the parsed template ("opN" or a fixed register)"""
    regs = {}
    k = 0
    for o in node.get("outs", []):
        c = o["c"].lstrip("=+&")
        regs[k] = CONSTRAINT_REG.get(c, "op%d" % k)
        k += 1
    nout = k
    for i in node.get("ins", []):
        c = i["c"]
        if c.isdigit():
            regs[k] = regs[int(c)]
        else:
            regs[k] = CONSTRAINT_REG.get(c, "op%d" % k)
        k += 1
    return regs, nout


def inline_effects(eff):
    """which input operands of an inline-asm effect are read / written through (as pointers).
    returns {"reads": [terms], "writes": [terms], "items": parsed items}"""
    node = eff["node"]
    items = inline_items(node["template"])
    check_mnemonics(items, "inline asm at line %s" % node.get("l"))
    regs, nout = inline_operand_regs(node)
    root = {}        # register -> input operand index it derives from
    for k, (c, term) in enumerate(eff["ins"]):
        r = regs[nout + k]
        root[r] = k
    reads, writes = set(), set()
    for it in items:
        if not isinstance(it, Ins):
            continue
        args = it.args
        for j, a in enumerate(args):
            if a[0] == "mem" and it.op != "leaq":
                base = SUB.get(a[2], (a[2], 8))[0] if a[2] else None
                k = root.get(base)
                if k is None:
                    continue
                is_store = (j == len(args) - 1) and not it.op.startswith(("cmp", "test"))
                (writes if is_store else reads).add(k)
        # register-to-register derivations
        if it.op in ("movq", "mov", "movl") and len(args) == 2 and args[0][0] == "reg" and args[1][0] == "reg":
            src = SUB.get(args[0][1], (args[0][1], 8))[0]
            dst = SUB.get(args[1][1], (args[1][1], 8))[0]
            if src in root:
                root[dst] = root[src]
            else:
                root.pop(dst, None)
        elif it.op == "leaq" and args[0][0] == "mem" and args[1][0] == "reg":
            base = SUB.get(args[0][2], (args[0][2], 8))[0] if args[0][2] else None
            dst = SUB.get(args[1][1], (args[1][1], 8))[0]
            if base in root:
                root[dst] = root[base]
            else:
                root.pop(dst, None)
        elif it.op in ("movq", "movl", "mov", "vmovd", "vmovq") and len(args) == 2 and args[0][0] == "mem" and args[1][0] == "reg":
            dst = SUB.get(args[1][1], (args[1][1], 8))[0]
            root.pop(dst, None)
    ins = [t for _, t in eff["ins"]]
    return {"reads": [ins[k] for k in sorted(reads)], "writes": [ins[k] for k in sorted(writes)], "items": items,
            "regs": regs, "nout": nout}


def modified_output_operands(node):
    """indexes of output operands whose register is the destination of some instruction of the template
    (an output that is only read, e.g. a pointer used as (%2), keeps its value)"""
    items = inline_items(node["template"])
    regs, nout = inline_operand_regs(node)
    written = set()
    for it in items:
        if not isinstance(it, Ins) or not it.args:
            continue
        if it.op.startswith(("cmp", "test")) or it.op in JCC or it.op in ("jmp", "pushq"):
            continue
        d = it.args[-1]
        if d[0] == "reg":
            written.add(SUB.get(d[1], (d[1], 8))[0])
    return {k for k in range(nout) if regs[k] in written}


# ------------------------------------------------------------------------------ strip-mined element-wise kernels
WIDTH_OF_MOVE = {"ymm": 32, "xmm": 16}


def _blocks(items):
    """split an item list at labels: [(label or None, [Ins...])]"""
    out, cur, lab = [], [], None
    for it in items:
        if isinstance(it, tuple):
            if it[0] == "label":
                out.append((lab, cur))
                cur, lab = [], it[1]
            continue
        cur.append(it)
    out.append((lab, cur))
    return out


def _access_widths(body, ptr_dst, ptr_src):
    """byte widths of every load and store through the two walking pointers in a straight-line block"""
    out = []
    for ins in body:
        op, args = ins.op, ins.args
        if len(args) < 2:
            continue
        for a in args:
            if a[0] == "mem" and a[2] in (ptr_dst, ptr_src):
                reg = next((b[1] for b in args if b[0] == "reg"), "")
                if op in ("movl", "vmovd", "movd", "subl", "addl"):
                    w = 4
                elif op in ("movq", "vmovq"):
                    w = 8
                else:
                    w = WIDTH_OF_MOVE.get(reg[:3], 0)
                out.append((a[2], a[1], w, op))
    return out


def _lane_dataflow(body, ptr_dst, ptr_src):
    """symbolic value stored through ptr_dst by a straight-line block: registers hold 'r' (loaded from dst),
    'a' (loaded from src) or ('-', x, y) / ('+', x, y).  -> (stored value, store width in bytes) or None"""
    val = {}
    stored = None
    for ins in body:
        op, args = ins.op, ins.args
        if op in ("vmovdqu", "vmovdqa", "vmovupd", "vmovapd", "movq", "movl", "vmovd", "vmovq") and len(args) == 2:
            s, d = args
            if s[0] == "mem" and d[0] == "reg":
                if s[2] == ptr_dst and s[1] == 0 and s[3] is None:
                    val[d[1]] = "r"
                elif s[2] == ptr_src and s[1] == 0 and s[3] is None:
                    val[d[1]] = "a"
                else:
                    val[d[1]] = "?"
            elif s[0] == "reg" and d[0] == "mem":
                if d[2] == ptr_dst and d[1] == 0 and d[3] is None:
                    w = 4 if op in ("movl", "vmovd") else 8 if op in ("movq", "vmovq") else WIDTH_OF_MOVE.get(s[1][:3], 0)
                    stored = (val.get(s[1], "?"), w)
                else:
                    return None        # a store somewhere else
            elif s[0] == "reg" and d[0] == "reg":
                val[d[1]] = val.get(s[1], "?")
        elif op in ("vpsubd", "vpaddd") and len(args) == 3:
            # AT&T: op src2, src1, dst  ->  dst = src1 (op) src2
            s2, s1, d = args
            if all(a[0] == "reg" for a in args):
                val[d[1]] = ("-" if op == "vpsubd" else "+", val.get(s1[1], "?"), val.get(s2[1], "?"))
        elif op in ("psubd", "paddd", "subl", "addl", "subq", "addq") and len(args) == 2 and args[0][0] == "reg" and args[1][0] == "reg":
            s, d = args
            if d[1] in val or s[1] in val:
                val[d[1]] = ("-" if op.startswith(("psub", "sub")) else "+", val.get(d[1], "?"), val.get(s[1], "?"))
        elif op in ("psubd", "paddd", "subl", "addl", "vpsubd", "vpaddd") and args[0][0] == "mem" and args[-1][0] == "reg":
            m = args[0]
            mv = "r" if (m[2] == ptr_dst and m[1] == 0 and m[3] is None) else "a" if (m[2] == ptr_src and m[1] == 0 and m[3] is None) else "?"
            first = args[1][1] if len(args) == 3 else args[-1][1]
            val[args[-1][1]] = ("-" if "sub" in op else "+", val.get(first, "?"), mv)
        elif op in ("subl", "addl") and args[0][0] == "reg" and args[1][0] == "mem":
            # read-modify-write directly on memory
            m = args[1]
            if m[2] == ptr_dst and m[1] == 0 and m[3] is None:
                stored = (("-" if op == "subl" else "+", "r", val.get(args[0][1], "?")), 4)
            else:
                return None
    return stored


def classify_stripmined(items, regs_init):
    """Classify an element-wise kernel  dst[i] = dst[i] (op) src[i], i < n, written as a main vector loop plus
    power-of-two tails.  regs_init: register -> role in {"dst","src","n"}.
    Returns dict(ok=bool, problems=[...], facts={...})."""
    pd, ps, rn = regs_init.get("dst"), regs_init.get("src"), regs_init.get("n")
    problems, facts = [], {}
    safety = facts.setdefault("safety", [])
    blocks = _blocks(items)
    # prologue: n0 = n & ~(W-1), end = src + 4*n0
    pro = blocks[0][1]
    n0reg, endreg, W = None, None, None
    cpy = {}
    guard = False
    for ins in pro:
        if ins.op == "movq" and ins.args[0] == ("reg", rn) and ins.args[1][0] == "reg":
            cpy[ins.args[1][1]] = "n"
        elif ins.op == "andq" and ins.args[0][0] == "imm" and ins.args[1][0] == "reg" and cpy.get(ins.args[1][1]) == "n":
            mask = ins.args[0][1] & 0xFFFFFFFFFFFFFFFF
            low = (~mask) & 0xFFFFFFFFFFFFFFFF
            if low & (low + 1) == 0:
                W = low + 1
                n0reg = ins.args[1][1]
                cpy[n0reg] = "n0"
        elif ins.op == "leaq" and ins.args[0][0] == "mem" and ins.args[0][2] == ps and ins.args[0][3] == n0reg and ins.args[0][4] == 4:
            endreg = ins.args[1][1]
        elif ins.op in ("testq", "cmpq") and n0reg and any(a == ("reg", n0reg) for a in ins.args):
            guard = "pending"
        elif ins.op in ("jz", "je", "jbe") and guard == "pending":
            guard = ins.args[0][1]
    facts["main_width"] = W
    if W is None or endreg is None:
        return {"ok": False, "problems": ["prologue not recognised (expected n0 = n & ~(W-1) and end = src + 4*n0)"], "facts": facts}
    # main loop = first labelled block ending in a backward conditional jump
    lab, body = blocks[1]
    facts["main_label"] = lab
    last = body[-1] if body else None
    cmpi = next((i for i in body if i.op == "cmpq"), None)
    strides = pointer_strides(body)
    is_loop = last is not None and last.op in JCC and last.args[0][1].rstrip("b") == lab
    if not is_loop or cmpi is None:
        return {"ok": False, "problems": ["main loop not recognised"], "facts": facts}
    if not (cmpi.args[0] == ("reg", endreg) and cmpi.args[1] == ("reg", ps) and last.op == "jb"):
        problems.append("main loop exit test is not 'src < end'")
    st = _lane_dataflow(body, pd, ps)
    if st is None or st[1] != 4 * W:
        problems.append("main loop does not store one %d-lane vector through dst (%s)" % (W, st))
    if strides.get(pd) != 4 * W or strides.get(ps) != 4 * W:
        problems.append("main loop strides %s differ from the vector width %d bytes" % (strides, 4 * W))
    # memory safety of the main loop: it runs n0/W... iterations counted on src; dst must not advance faster than src and
    # no access may be wider than the stride of its pointer
    if (strides.get(pd) or 0) > (strides.get(ps) or 0) or (strides.get(ps) or 0) > 4 * W:
        safety.append("main loop advances dst by %s and src by %s bytes per %d admitted lanes" % (strides.get(pd), strides.get(ps), W))
    for reg, off, w, op in _access_widths(body, pd, ps):
        if off + w > 4 * W or off < 0:
            safety.append("main loop: %s accesses bytes [%d,%d) of a %d-byte block through %%%s" % (op, off, off + w, 4 * W, reg))
    facts["op"] = st[0] if st else None
    # top-tested or guarded?
    guarded = guard not in (False, "pending")
    facts["main_loop_guarded"] = guarded
    if not guarded:
        problems.append("UNGUARDED: the bottom-tested %d-lane loop runs once when n < %d (n0 = 0): it processes [0,%d) and the tails "
                        "process the same n operands again; witness n = 1" % (W, W, W))
    # remainder and tails
    rest = blocks[2:]
    tail_widths = []
    rem_ok = False
    for lab2, b in rest:
        for ins in b:
            if ins.op == "subq" and ins.args[0] == ("reg", n0reg) and ins.args[1] == ("reg", rn):
                rem_ok = True
        c = next((i for i in b if i.op == "cmpq" and i.args[0][0] == "imm" and i.args[1] == ("reg", rn)), None)
        if c is None:
            continue
        w = c.args[0][1]
        j = next((i for i in b if i.op == "jb"), None)
        idx = b.index(c)
        blk = b[idx + 1:]
        if j is None:
            problems.append("tail for width %s has no 'rem < w' skip" % w)
            continue
        blk = [i for i in blk if i is not j]
        stt = _lane_dataflow(blk, pd, ps)
        strd = pointer_strides(blk)
        tail_widths.append(w)
        if stt is None or stt[1] != 4 * w:
            problems.append("tail %s stores %s bytes, expected %d" % (w, stt[1] if stt else None, 4 * w))
        elif stt[0] != facts["op"]:
            problems.append("tail %s computes %s, main loop computes %s" % (w, stt[0], facts["op"]))
        if w != 1 and (strd.get(pd) != 4 * w or strd.get(ps) != 4 * w):
            problems.append("tail %s advances pointers by %s, expected %d" % (w, strd, 4 * w))
        # memory safety: the guard rem >= w admits w more lanes behind each pointer
        for reg, off, aw, op in _access_widths(blk, pd, ps):
            if off + aw > 4 * w or off < 0:
                safety.append("tail %s: %s accesses bytes [%d,%d) through %%%s where the guard admits only %d bytes" % (
                    w, op, off, off + aw, reg, 4 * w))
        for reg in (pd, ps):
            adv = strd.get(reg) or 0
            if adv > 4 * w or adv < 0:
                safety.append("tail %s advances %%%s by %d bytes where the guard admits %d" % (w, reg, adv, 4 * w))
        if w != 1 and strd.get(rn) != -w:
            problems.append("tail %s does not subtract %s from the remainder" % (w, w))
    facts["tails"] = tail_widths
    if not rem_ok:
        problems.append("remainder n - n0 is not computed before the tails")
    want = []
    w = W // 2
    while w >= 1:
        want.append(w)
        w //= 2
    if tail_widths != want:
        problems.append("tail widths %s do not cover every remainder in [0,%d): expected %s" % (tail_widths, W, want))
    return {"ok": not problems, "problems": problems, "facts": facts}


# ------------------------------------------------------------------------------ lane-symbolic evaluation
def lane_eval(items, regs, nout, ins_terms):
    """Symbolic evaluation of a pointer-walking inline-asm block with lane-uniform vector instructions.
    Returns {"stores": [(pointer operand term, lane expression)], "loop": {...} | None, "problems": [...]}.
    Lane expressions: ("load", ptr term) | ("bcast", ptr term) | ("scalar", ptr term) | (op, a, b)."""
    rev = {r: ins_terms[k - nout] for k, r in regs.items() if k >= nout}
    vec = {}
    stores = []
    problems = []
    lps = loops_of(items)
    body_range = (lps[0]["head"], lps[0]["tail"]) if lps else (0, len(items))
    for idx_, it in enumerate(items):
        if not isinstance(it, Ins):
            continue
        op, a = it.op, it.args
        in_loop = body_range[0] <= idx_ <= body_range[1]
        def ptr(m):
            if m[0] == "mem" and m[2] in rev and m[1] == 0 and m[3] is None:
                return rev[m[2]]
            return None
        if op in ("vpbroadcastd", "vbroadcastsd") and a[0][0] == "mem" and a[1][0] == "reg":
            p = ptr(a[0])
            vec[a[1][1][1:] if False else _vn(a[1][1])] = ("bcast", p) if p is not None else ("?",)
        elif op in ("vmovd", "vmovq") and a[0][0] == "mem" and a[1][0] == "reg":
            p = ptr(a[0])
            vec[_vn(a[1][1])] = ("scalar", p) if p is not None else ("?",)
        elif op in ("vmovdqu", "vmovdqa", "vmovupd", "vmovapd") and len(a) == 2:
            if a[0][0] == "mem" and a[1][0] == "reg":
                p = ptr(a[0])
                vec[_vn(a[1][1])] = ("load", p) if p is not None else ("?",)
            elif a[0][0] == "reg" and a[1][0] == "mem":
                p = ptr(a[1])
                if p is None:
                    problems.append("store through an unresolved pointer: %s" % it.raw)
                else:
                    stores.append((p, vec.get(_vn(a[0][1]), ("?",)), in_loop))
        elif op in ("vpsrld", "vpslld", "vpand", "vpor", "vpxor", "vpsubd", "vpaddd", "vmulpd", "vaddpd", "vsubpd") and len(a) == 3 \
                and all(x[0] == "reg" for x in a):
            s2, s1, d = (_vn(x[1]) for x in a)
            name = {"vpsrld": ">>u", "vpslld": "<<", "vpand": "&", "vpor": "|", "vpxor": "^", "vpsubd": "-", "vpaddd": "+",
                    "vmulpd": "*.", "vaddpd": "+.", "vsubpd": "-."}[op]
            vec[d] = (name, vec.get(s1, ("?",)), vec.get(s2, ("?",)))
        elif op in ("addq", "subq", "cmpq", "cmp", "leaq", "incq") or op in JCC or op in ("vzeroall", "vzeroupper", "nop"):
            pass
        elif op in ("vcvtdq2pd", "vcvtsi2sd", "vcvtsi2sdq"):
            if a[-1][0] == "reg":
                src = a[0]
                p = ptr(src) if src[0] == "mem" else None
                vec[_vn(a[-1][1])] = ("cvt", ("load", p) if p is not None else vec.get(_vn(src[1]), ("?",)) if src[0] == "reg" else ("?",), None)
        else:
            problems.append("instruction not modelled lane-wise: %s" % it.raw)
    return {"stores": stores, "problems": problems, "loops": lps}


def _vn(r):
    """ymm3 and xmm3 are the same register"""
    return "v" + r[3:] if r.startswith(("ymm", "xmm")) else r


def lane_to_term(e, lane):
    """lane expression -> sym term for lane index `lane`"""
    from . import sym as S
    k = e[0]
    if k == "load":
        return S.idx(e[1], lane)
    if k in ("bcast", "scalar"):
        return S.idx(e[1], S.ZERO)
    if k == ">>u":
        return ("op", ">>", lane_to_term(e[1], lane), lane_to_term(e[2], lane))
    if k in ("&", "|", "^", "<<"):
        return S.binop(k, lane_to_term(e[1], lane), lane_to_term(e[2], lane))
    if k == "-":
        return S.sub(lane_to_term(e[1], lane), lane_to_term(e[2], lane))
    if k == "+":
        return S.add(lane_to_term(e[1], lane), lane_to_term(e[2], lane))
    return ("unk", "lane:%s" % (k,))


# ------------------------------------------------------------------------------ floating-point lane kernels (.s files)
def fp_kernel_eval(items, nargs=3):
    """Lane-symbolic evaluation of a pointwise kernel over split real/imaginary arrays (the Lagrange kernels).
    Pointer roles come from the prologue: load(argK,0) is the real base of operand K, lea(base, Ns2, 8) its imaginary
    base.  Values are polynomials over the atoms  x{K}.re / x{K}.im  (exact real algebra: which products, which signs).
    -> {"stores": {role: poly}, "problems": [...], "loop": {...}}"""
    from . import sym as S
    problems = []
    # prologue
    first_label = next((k for k, it in enumerate(items) if isinstance(it, tuple) and it[0] == "label"), len(items))
    regs, loads = straightline_regs(items, upto=first_label, init=initial_args(nargs))
    role = {}
    for r, t in regs.items():
        if isinstance(t, tuple) and t[0] == "load" and t[1][0] == "sym" and t[1][1].startswith("arg") and t[2] == 0:
            role[r] = (int(t[1][1][3:]), "re")
    for r, t in regs.items():
        if isinstance(t, tuple) and t[0] == "ea" and t[3] is not None and t[4] == 8 and t[2] == 0:
            b = t[1]
            if isinstance(b, tuple) and b[0] == "load" and b[1][0] == "sym" and b[2] == 0:
                role[r] = (int(b[1][1][3:]), "im")
    end_alias = {}
    for r, t in regs.items():
        for r2, t2 in regs.items():
            if r != r2 and t == t2 and r2 in role and r not in role:
                end_alias[r] = r2
    lps = loops_of(items)
    if len(lps) != 1:
        return {"stores": {}, "problems": ["expected one loop, found %d" % len(lps)], "loop": None}
    lp = lps[0]
    vec = {}
    stores = {}
    atom = lambda k, part: S.sym("x%d.%s" % (k, part))
    for ins in lp["body"]:
        op, a = ins.op, ins.args
        if op in ("vmovupd", "vmovapd") and len(a) == 2:
            if a[0][0] == "mem" and a[1][0] == "reg":
                m = a[0]
                if m[2] in role and m[1] == 0 and m[3] is None:
                    vec[_vn(a[1][1])] = atom(*role[m[2]])
                else:
                    problems.append("load from an unresolved pointer: %s" % ins.raw)
            elif a[0][0] == "reg" and a[1][0] == "mem":
                m = a[1]
                if m[2] in role and m[1] == 0 and m[3] is None:
                    stores[role[m[2]]] = vec.get(_vn(a[0][1]), S.sym("?"))
                else:
                    problems.append("store through an unresolved pointer: %s" % ins.raw)
        elif op in ("vmulpd", "vaddpd", "vsubpd") and len(a) == 3 and all(x[0] == "reg" for x in a):
            s2 = vec.get(_vn(a[0][1]), S.sym("?" + a[0][1]))
            s1 = vec.get(_vn(a[1][1]), S.sym("?" + a[1][1]))
            dn = _vn(a[2][1])
            vec[dn] = S.mul(s1, s2) if op == "vmulpd" else S.add(s1, s2) if op == "vaddpd" else S.sub(s1, s2)
        elif op in ("vfmadd231pd", "vfmsub231pd", "vfnmadd231pd", "vfnmsub231pd") and len(a) == 3 and all(x[0] == "reg" for x in a):
            s3 = vec.get(_vn(a[0][1]), S.sym("?" + a[0][1]))
            s2 = vec.get(_vn(a[1][1]), S.sym("?" + a[1][1]))
            dn = _vn(a[2][1])
            d = vec.get(dn, S.sym("?" + a[2][1]))
            prod = S.mul(s2, s3)
            vec[dn] = {"vfmadd231pd": S.add(prod, d), "vfmsub231pd": S.sub(prod, d),
                       "vfnmadd231pd": S.sub(d, prod), "vfnmsub231pd": S.neg(S.add(prod, d))}[op]
        elif op in ("addq", "cmpq", "leaq") or op in JCC:
            pass
        else:
            problems.append("instruction not modelled: %s" % ins.raw)
    strides = pointer_strides(lp["body"])
    cmpi = next((i for i in lp["body"] if i.op == "cmpq"), None)
    loopinfo = {"strides": {role.get(r, r): s for r, s in strides.items()}, "bottom_tested": classify_loop(items, lp)["bottom_tested"]}
    if cmpi is not None and cmpi.args[0][0] == "reg" and cmpi.args[1][0] == "reg":
        endr, curr = cmpi.args[0][1], cmpi.args[1][1]
        loopinfo["walk"] = role.get(curr)
        loopinfo["end"] = role.get(end_alias.get(endr, endr))
    return {"stores": stores, "problems": problems, "loop": loopinfo, "roles": role}
