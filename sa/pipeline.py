"""Pipeline: /repo working tree -> cmake compile databases (optim, debug) -> facts.

Everything is re-derived from the current working tree on every run; a cache keyed
on the content hash of the source tree avoids re-parsing when twenty checks run
back to back on the same tree.  Nothing from /repo is executed: cmake only
configures (to obtain the real compile commands), tfhe-facts only parses.
"""
import concurrent.futures
import fcntl
import hashlib
import json
import os
import re
import shlex
import shutil
import subprocess
import sys
import time

VERIF = os.path.dirname(os.path.dirname(os.path.abspath(__file__)))
REPO = os.environ.get("VERIF_REPO", "/repo")
WORK = os.environ.get("VERIF_WORK", os.path.join(VERIF, ".work"))
TOOL = os.path.join(VERIF, "build", "tfhe-facts")
RESOURCE_DIR = "/usr/lib/llvm-14/lib/clang/14.0.6"
CONFIGS = ("optim", "debug")
CMAKE_OPTS = [
    "-DENABLE_TESTS=off", "-DENABLE_FFTW=on", "-DENABLE_NAYUKI_PORTABLE=on",
    "-DENABLE_NAYUKI_AVX=on", "-DENABLE_SPQLIOS_AVX=on", "-DENABLE_SPQLIOS_FMA=on",
    "-DCMAKE_EXPORT_COMPILE_COMMANDS=ON",
]
BACKENDS = ("spqlios-fma", "spqlios-avx", "nayuki-portable", "nayuki-avx", "fftw")


class AnalysisBroken(Exception):
    """exit 2: the analysis could not be carried out (never a property verdict)."""


def tree_hash(repo):
    h = hashlib.sha256()
    src = os.path.join(repo, "src")
    for root, dirs, files in os.walk(src):
        dirs[:] = sorted(d for d in dirs if d not in ("googletest", "test"))
        for f in sorted(files):
            p = os.path.join(root, f)
            if os.path.islink(p):
                continue
            h.update(os.path.relpath(p, src).encode())
            with open(p, "rb") as fh:
                h.update(hashlib.sha256(fh.read()).digest())
    for extra in ("README.md",):
        p = os.path.join(repo, extra)
        if os.path.exists(p):
            h.update(open(p, "rb").read())
    with open(TOOL, "rb") as fh:
        h.update(hashlib.sha256(fh.read()).digest())
    with open(os.path.abspath(__file__), "rb") as fh:
        h.update(hashlib.sha256(fh.read()).digest())
    h.update(repo.encode())
    return h.hexdigest()[:20]


def _run(cmd, **kw):
    return subprocess.run(cmd, stdout=subprocess.PIPE, stderr=subprocess.STDOUT, text=True, **kw)


def _configure(repo, cfg, outdir):
    os.makedirs(outdir, exist_ok=True)
    r = _run(["cmake", "-G", "Ninja", os.path.join(repo, "src"), "-DCMAKE_BUILD_TYPE=" + cfg] + CMAKE_OPTS,
             cwd=outdir)
    db = os.path.join(outdir, "compile_commands.json")
    if r.returncode != 0 or not os.path.exists(db):
        raise AnalysisBroken("cmake configure failed for %s:\n%s" % (cfg, r.stdout[-2000:]))
    return json.load(open(db))


def _target_of(output):
    m = re.search(r"CMakeFiles/([^/]+)\.dir/", output or "")
    return m.group(1) if m else "unknown"


def _clean_args(command):
    args = shlex.split(command)
    out = []
    skip = False
    for a in args[1:]:
        if skip:
            skip = False
            continue
        if a in ("-o",):
            skip = True
            continue
        if a in ("-c", "-Werror"):
            continue
        out.append(a)
    # last arg is the file
    return out


def _parse_unit(job):
    out, srcroot, file, args = job
    cmd = [TOOL, out, srcroot, file, "--"] + args + ["-resource-dir", RESOURCE_DIR, "-Wno-everything"]
    r = _run(cmd)
    ok = r.returncode == 0 and os.path.exists(out)
    return (file, ok, r.stdout[-3000:])


def _preprocess_asm(job):
    out, file, args = job
    cmd = ["clang", "-E", "-x", "assembler-with-cpp"] + [a for a in args if a.startswith(("-I", "-D"))] + [file, "-o", out]
    r = _run(cmd)
    return (file, r.returncode == 0 and os.path.exists(out), r.stdout[-2000:])


HEADER_MODES = {
    "c99": ["-x", "c", "-std=c99"],
    "cxx": ["-x", "c++", "-std=gnu++11"],
}


def build_facts(repo=REPO, verbose=True):
    """Returns the facts directory for the current tree (building it if needed)."""
    if not os.path.exists(TOOL):
        raise AnalysisBroken("tfhe-facts not built; run setup (bin/setup)")
    os.makedirs(WORK, exist_ok=True)
    key = tree_hash(repo)
    fdir = os.path.join(WORK, "facts-" + key)
    lock = open(os.path.join(WORK, "lock"), "w")
    fcntl.flock(lock, fcntl.LOCK_EX)
    try:
        if os.path.exists(os.path.join(fdir, "index.json")):
            return fdir
        t0 = time.time()
        # prune old caches (keep the 3 most recent)
        olds = sorted((d for d in os.listdir(WORK) if d.startswith("facts-")),
                      key=lambda d: os.path.getmtime(os.path.join(WORK, d)))
        for d in olds[:-3]:
            shutil.rmtree(os.path.join(WORK, d), ignore_errors=True)
        tmp = fdir + ".tmp%d" % os.getpid()
        shutil.rmtree(tmp, ignore_errors=True)
        os.makedirs(tmp)
        srcroot = os.path.join(repo, "src")
        index = {"repo": repo, "key": key, "configs": {}, "headers": {}, "not_built": []}
        jobs, asmjobs = [], []
        built_files = set()
        for cfg in CONFIGS:
            db = _configure(repo, cfg, os.path.join(tmp, "cmake-" + cfg))
            units = []
            seen = set()
            for e in db:
                tgt = _target_of(e.get("output") or e["command"])
                f = e["file"]
                if (tgt, f) in seen:
                    continue
                seen.add((tgt, f))
                built_files.add(os.path.relpath(f, srcroot))
                args = _clean_args(e["command"])
                if args and args[-1] == f:
                    args = args[:-1]
                rel = os.path.relpath(f, srcroot)
                u = {"target": tgt, "file": rel, "args": args}
                if f.endswith((".s", ".S")):
                    out = os.path.join(tmp, cfg, tgt, rel.replace("/", "__") + ".pp.s")
                    u["asm"] = os.path.relpath(out, tmp)
                    asmjobs.append((out, f, args))
                else:
                    out = os.path.join(tmp, cfg, tgt, rel.replace("/", "__") + ".json")
                    u["facts"] = os.path.relpath(out, tmp)
                    jobs.append((out, srcroot, f, args))
                os.makedirs(os.path.dirname(out), exist_ok=True)
                units.append(u)
            index["configs"][cfg] = units
            shutil.rmtree(os.path.join(tmp, "cmake-" + cfg), ignore_errors=True)
        # header translation units: #include <tfhe.h> and <tfhe_io.h>, C99 and C++ views,
        # with the flag sets of both builds
        hdir = os.path.join(tmp, "headers")
        os.makedirs(hdir)
        flagsets = {}
        for cfg in CONFIGS:
            cxx = next(u for u in index["configs"][cfg] if u["file"].endswith("lwe.cpp"))
            flagsets[cfg] = [a for a in cxx["args"] if not a.startswith("-std=")]
        for mode, mflags in HEADER_MODES.items():
            ext = ".c" if mode == "c99" else ".cpp"
            srcf = os.path.join(hdir, "hdr_" + mode + ext)
            with open(srcf, "w") as fh:
                fh.write("#include <tfhe.h>\n#include <tfhe_io.h>\n")
            for cfg in CONFIGS:
                out = os.path.join(hdir, "%s_%s.json" % (mode, cfg))
                jobs.append((out, srcroot, srcf, flagsets[cfg] + mflags))
                index["headers"]["%s_%s" % (mode, cfg)] = os.path.relpath(out, tmp)
        # each header of src/include alone, in both language modes (may legitimately fail: recorded, not fatal)
        solo_jobs = []
        index["solo_headers"] = {}
        incdir = os.path.join(srcroot, "include")
        for h in sorted(os.listdir(incdir)):
            if not h.endswith(".h"):
                continue
            for mode, mflags in HEADER_MODES.items():
                ext = ".c" if mode == "c99" else ".cpp"
                srcf = os.path.join(hdir, "solo_%s_%s%s" % (h[:-2], mode, ext))
                with open(srcf, "w") as fh:
                    fh.write('#include "%s"\n' % h)
                out = os.path.join(hdir, "solo_%s_%s.json" % (h[:-2], mode))
                solo_jobs.append((out, srcroot, srcf, flagsets["optim"] + mflags))
                index["solo_headers"]["%s:%s" % (h, mode)] = {"facts": os.path.relpath(out, tmp)}
        with concurrent.futures.ThreadPoolExecutor(max_workers=os.cpu_count() or 4) as ex:
            res = list(ex.map(_parse_unit, jobs)) + list(ex.map(_preprocess_asm, asmjobs))
            solo_res = list(ex.map(_parse_unit, solo_jobs))
        for (out, _, srcf, _), (f, ok, msg) in zip(solo_jobs, solo_res):
            base = os.path.basename(srcf)
            m = re.match(r"solo_(.*)_(c99|cxx)\.", base)
            key = "%s.h:%s" % (m.group(1), m.group(2))
            index["solo_headers"][key]["ok"] = ok
            if not ok:
                errs = [l for l in msg.splitlines() if "error:" in l]
                index["solo_headers"][key]["error"] = (errs[0] if errs else msg[-300:])[:400]
        bad = [(f, msg) for f, ok, msg in res if not ok]
        if bad:
            shutil.rmtree(tmp, ignore_errors=True)
            raise AnalysisBroken("front end failed on %d unit(s): %s" %
                                 (len(bad), "; ".join("%s: %s" % (f, m[-400:]) for f, m in bad[:3])))
        # files in the tree that no target compiles
        for root, dirs, files in os.walk(os.path.join(srcroot, "libtfhe")):
            for f in sorted(files):
                if f.endswith((".cpp", ".c", ".s", ".S")):
                    rel = os.path.relpath(os.path.join(root, f), srcroot)
                    if rel not in built_files:
                        index["not_built"].append(rel)
        index["wall_s"] = round(time.time() - t0, 2)
        json.dump(index, open(os.path.join(tmp, "index.json"), "w"), indent=1)
        shutil.rmtree(fdir, ignore_errors=True)
        os.rename(tmp, fdir)
        if verbose:
            print("[facts] %d units parsed in %.1fs -> %s" % (len(jobs) + len(asmjobs), time.time() - t0, fdir),
                  file=sys.stderr)
        return fdir
    finally:
        fcntl.flock(lock, fcntl.LOCK_UN)
        lock.close()
