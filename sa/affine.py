"""Small affine prover:  E >= 0  follows from constraints L_k >= 0 when  E - sum(lambda_k * L_k)  is a
non-negative constant for some lambda_k in {0,1,2}.  Sound, incomplete; enough for index-range facts such as
0 <= N - a + i  given  i >= 0, a <= N - 1."""
import itertools

from . import sym
from .sym import I, ZERO


def prove_nonneg(E, constraints, maxlam=2):
    c = sym.const_value(E)
    if c is not None:
        return c >= 0
    cons = []
    for k in constraints:
        if sym.const_value(k) is None and k not in cons:
            cons.append(k)
    # only constraints sharing atoms with E (transitively) matter; keep the search small
    rel = set(sym.atoms(E))
    changed = True
    keep = []
    while changed:
        changed = False
        for k in cons:
            if k not in keep and sym.atoms(k) & rel:
                keep.append(k)
                rel |= sym.atoms(k)
                changed = True
    cons = keep[:10]
    for top in (1, maxlam):
        for lam in itertools.product(range(top + 1), repeat=len(cons)):
            t = E
            for l, k in zip(lam, cons):
                if l:
                    t = sym.sub(t, sym.mul(I(l), k))
            cv = sym.const_value(t)
            if cv is not None and cv >= 0:
                return True
        if len(cons) > 8:
            break
    return False


def infeasible(constraints, maxlam=2):
    """True when a non-negative combination of the constraints (each >= 0) is a negative constant: they cannot all hold"""
    cons = []
    for k in constraints:
        cv = sym.const_value(k)
        if cv is not None:
            if cv < 0:
                return True
            continue
        if k not in cons:
            cons.append(k)
    cons = cons[:10]
    for top in (1, maxlam):
        for lam in itertools.product(range(top + 1), repeat=len(cons)):
            if not any(lam):
                continue
            t = ZERO
            for l, k in zip(lam, cons):
                if l:
                    t = sym.add(t, sym.mul(I(l), k))
            cv = sym.const_value(t)
            if cv is not None and cv < 0:
                return True
        if len(cons) > 8:
            break
    return False


def loop_constraints(loops):
    """range facts of canonical loops with step +1: var - lo >= 0, hi - 1 - var >= 0 (or hi - var >= 0 for <=)"""
    out = []
    for lp in loops:
        if sym.const_value(lp["step"]) != 1:
            continue
        v = lp["var"]
        out.append(sym.sub(v, lp["lo"]))
        if lp["cmp"] == "<":
            out.append(sym.sub(sym.sub(lp["hi"], I(1)), v))
        elif lp["cmp"] == "<=":
            out.append(sym.sub(lp["hi"], v))
    return out


def guard_constraints(guards):
    """comparisons a < b etc. as (expr >= 0) facts over integers"""
    out = []
    def add(c, neg):
        if c[0] == "un" and c[1] == "!":
            return add(c[2], not neg)
        if c[0] == "op" and c[1] == "&&" and not neg:
            add(c[2], False); add(c[3], False); return
        if c[0] == "op" and c[1] == "||" and neg:
            add(c[2], True); add(c[3], True); return
        if c[0] != "op":
            return
        op, a, b = c[1], c[2], c[3]
        if neg:
            op = {"<": ">=", "<=": ">", ">": "<=", ">=": "<", "==": "!=", "!=": "=="}.get(op)
        if op == "<":
            out.append(sym.sub(sym.sub(b, a), I(1)))
        elif op == "<=":
            out.append(sym.sub(b, a))
        elif op == ">":
            out.append(sym.sub(sym.sub(a, b), I(1)))
        elif op == ">=":
            out.append(sym.sub(a, b))
        elif op == "==":
            out.append(sym.sub(a, b)); out.append(sym.sub(b, a))
    for g in guards:
        add(g, False)
    return out
