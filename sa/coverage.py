"""Index-set coverage of transform scratch buffers (C06.R5): in each execute_* method of an FFT processor the
index sets written to each scratch buffer before the transform call must cover exactly what the transform reads,
so that nothing left over from an earlier call (or from the allocator) can reach the output."""
import re

from . import asm, bounds, summ, sym
from .sym import I, ZERO
from .pipeline import AnalysisBroken

NOINLINE = summ.LOCAL_HELPERS
TRANSFORMS = {
    # callee -> index of the arguments that are read as input arrays
    "fft_transform": [1, 2], "fft_transform_reverse": [1, 2], "fft": [1], "ifft": [1], "fftw_execute": [],
}
H = sym.sym("h")        # N = 2h (N is a power of two >= 2)


def field_values(v, rec):
    """this->field -> value term from the processor constructor (over the ctor parameter N)"""
    ctors = [c for c in v.defined() if c.get("record") == rec and c.get("kind") == "ctor" and not c.get("implicit") and not c.get("copy")]
    if len(ctors) != 1:
        raise AnalysisBroken("constructor of %s not found" % rec)
    ps, eff = summ.pieces(v, ctors[0], hooks=NOINLINE)
    this = sym.sym("this")
    vals = {}
    for p in ps:
        if p["kind"] == "store" and p["op"] == "=" and not p["loops"] and p["lv"][0] == "fld" and p["lv"][1] == sym.idx(this, ZERO):
            vals[p["lv"]] = p["val"]
    return vals, ctors[0], ps


def extent_of(v, buf_lv, vals, allocs):
    """number of elements the transform may read from this buffer, as a term over the ctor parameter"""
    val = vals.get(buf_lv)
    if val is None:
        return None, "buffer is not set by the constructor"
    if val in allocs:
        return allocs[val]
    # pointer derived from another buffer (imag = real + Ns2): not a separately allocated array
    return None, "derived pointer %s" % sym.show(val)[:60]


def to_h(t, vals, nparam):
    """express a term over this->fields / the ctor parameter in h, with N = 2h"""
    m = dict(vals)
    t2 = sym.rewrite(t, m)
    t2 = sym.rewrite(t2, m)
    return sym.rewrite(t2, {nparam: sym.mul(I(2), H)})


def covered(sets, extent):
    """sets: list of (stride int, offset term, count term) meaning {stride*i + offset : 0 <= i < count}.
    True iff their union is [0, extent) — decided per residue class with symbolic counts."""
    if not sets:
        return False, "no write before the transform"
    strides = {s for s, _, _ in sets}
    s = max(strides)
    if any(s % x for x in strides):
        return False, "mixed strides %s" % sorted(strides)
    maxes = []
    for r in range(s):
        best = None
        for st, off, cnt in sets:
            # a set with stride st covers residues off + st*i (mod s): expand to stride s
            for k in range(s // st):
                o = sym.add(off, I(st * k))
                ov = sym.const_value(o)
                c2 = None
                if ov is None:
                    continue
                if ov % s != r:
                    continue
                # elements: s*j + ov for j in [0, ceil((cnt - k)/ (s/st)))
                if s == st:
                    c2 = cnt
                else:
                    c2 = ("op", "/", sym.add(sym.sub(cnt, I(k)), I(s // st - 1)), I(s // st))
                    c2 = sym.binop("/", sym.add(sym.sub(cnt, I(k)), I(s // st - 1)), I(s // st))
                if ov >= s:
                    continue
                top = sym.add(sym.mul(I(s), sym.sub(c2, I(1))), I(ov))
                if best is None:
                    best = top
                else:
                    d = sym.const_value(sym.sub(top, best))
                    if d is not None and d > 0:
                        best = top
        # descending sets (offset symbolic, negative stride) are handled by the caller as ascending equivalents
        if best is None:
            return False, "residue class %d mod %d is never written" % (r, s)
        maxes.append(best)
    want = {sym.sub(extent, I(j + 1)) for j in range(s)}
    if set(maxes) != want:
        return False, "largest written indices %s, the transform reads up to %s" % ([sym.show(m) for m in maxes], sym.show(sym.sub(extent, I(1))))
    return True, "residue classes mod %d reach %s" % (s, [sym.show(m) for m in sorted(maxes, key=repr)])


def check_c06_scratch(chk, v):
    vn = v.name
    procs = [r for r in v.records.values() if r["file"].startswith("libtfhe/fft_processors") and r.get("has_user_dtor")
             and re.search(r"[Pp]rocessor", r["name"])]
    for r in procs:
        rec = r["name"]
        vals, ctor, cps = field_values(v, rec)
        nparam = sym.sym(ctor.params[0]["n"])
        this = sym.sym("this")
        # allocation extents (elements) of constructor-owned arrays
        allocs = {}
        for p in cps:
            if p["kind"] != "call":
                continue
            x = p["eff"]
            ret = x.get("ret")
            if ret is None:
                continue
            if x["name"] in ("malloc", "fftw_malloc") and x["args"]:
                allocs[ret] = ("bytes", x["args"][0])
            elif x["name"] in ("new_fft_table", "new_ifft_table"):
                allocs[("table", ret)] = x["args"][0]
            elif x["name"] in ("fft_table_get_buffer", "ifft_table_get_buffer"):
                tab = x["args"][0]
                tabv = sym.rewrite(tab, vals)
                n_ = allocs.get(("table", tabv))
                if n_ is not None:
                    allocs[ret] = ("elems", n_)
        # fftw plans: plan field -> (input array field, kind, size)
        plans = {}
        for m in v.defined():
            if m.get("record") != rec:
                continue
            mps, _ = summ.pieces(v, m, hooks=NOINLINE)
            for p in mps:
                if p["kind"] == "store" and p["val"][0] == "obj" and p["val"][1].startswith("fftw_plan_dft_"):
                    kind = "r2c" if "r2c" in p["val"][1] else "c2r"
                    a = p["val"][2]
                    plans[p["lv"]] = (a[1], kind, a[0])
        methods = [m for m in v.defined() if m.get("record") == rec and m.get("kind") == "method"]
        for m in methods:
            mps, _ = summ.pieces(v, m, hooks=NOINLINE)
            tcalls = [p for p in mps if p["kind"] == "call" and p["name"] in TRANSFORMS]
            if not tcalls:
                continue
            t = tcalls[0]
            if t["name"] == "fftw_execute":
                pl = plans.get(t["args"][0])
                if pl is None:
                    chk.assumed("R5", "%s::%s overwrites everything the transform reads" % (rec, m.name), where=m.where,
                                detail="FFTW plan %s not resolved" % sym.show(t["args"][0]), variant=vn)
                    continue
                arr, kind, size = pl
                bufs = [(arr, sym.add(sym.binop("/", to_h(size, vals, nparam), I(2)), I(1)) if kind == "c2r" else to_h(size, vals, nparam))]
            else:
                bufs = []
                for ai in TRANSFORMS[t["name"]]:
                    b = t["args"][ai]
                    al = allocs.get(sym.rewrite(b, vals)) or allocs.get(vals.get(b))
                    ext = None
                    if al is not None:
                        if al[0] == "bytes":
                            ext = sym.binop("/", to_h(al[1], vals, nparam), I(8))
                        else:
                            ext = to_h(al[1], vals, nparam)
                    bufs.append((b, ext))
            for buf, ext in bufs:
                key = "%s::%s writes every element of %s that %s reads" % (rec, m.name, sym.show(buf).replace("this->", ""), t["name"])
                where = "%s:%s" % (m.file, t["line"])
                if ext is None:
                    chk.assumed("R5", key, where=where, detail="extent of the buffer not derivable from the constructor", variant=vn)
                    continue
                sets = []
                unknown = []
                for p in mps:
                    if p["line"] >= t["line"]:
                        continue
                    if p["kind"] == "call" and p["name"].endswith("operator=") and p["args"] and p["args"][0] is not None \
                            and p["args"][0][0] == "idx":
                        # assignment to a std::complex element is an operator call
                        p = dict(p, kind="store", lv=p["args"][0], op="=", val=p["args"][1] if len(p["args"]) > 1 else None)
                    if p["kind"] == "store" and p["lv"][0] == "idx" and p["lv"][1] == buf and not p["loops"] and not p["guards"]:
                        # a single element (a peeled first / last slot); the end value of a counted loop over [0, X) is X (X >= 0)
                        ix = sym.rewrite(p["lv"][2], {st_: st_[2][1] for st_ in sym.subterms(p["lv"][2])
                                                      if st_[0] == "call" and st_[1] == "$loop_end" and st_[2][0] == ZERO
                                                      and st_[2][2] == I(1) and st_[2][3] == I(0)})
                        sets.append((1, to_h(ix, vals, nparam), I(1)))
                        continue
                    if p["kind"] == "store" and p["lv"][0] == "idx" and p["lv"][1] == buf and len(p["loops"]) == 1:
                        lp = p["loops"][0]
                        lin = sym.linear_in(p["lv"][2], lp["var"])
                        if lin is None or sym.const_value(lin[0]) is None or lp["lo"] != ZERO or sym.const_value(lp["step"]) != 1:
                            unknown.append(p["line"])
                            continue
                        a_, b_ = sym.const_value(lin[0]), to_h(lin[1], vals, nparam)
                        cnt = to_h(lp["hi"] if lp["cmp"] == "<" else sym.add(lp["hi"], I(1)), vals, nparam)
                        if a_ < 0:
                            # descending: {b - |a| i : 0 <= i < cnt} == {|a| j + (b - |a|(cnt-1))}
                            b_ = sym.sub(b_, sym.mul(I(-a_), sym.sub(cnt, I(1))))
                            a_ = -a_
                        if sym.const_value(b_) is None:
                            # offset symbolic (e.g. N + i): shift into a base set when it is a multiple of the stride beyond another set
                            sets.append((a_, b_, cnt))
                        else:
                            sets.append((a_, b_, cnt))
                    elif p["kind"] == "asm":
                        x = p["eff"]
                        items = asm.inline_items(x["node"]["template"])
                        regs, nout = asm.inline_operand_regs(x["node"])
                        ins_terms = [tt for _, tt in x["ins"]]
                        le = asm.lane_eval(items, regs, nout, ins_terms)
                        for ptr, expr, in_loop in le["stores"]:
                            if ptr != buf and sym.rewrite(ptr, vals) != sym.rewrite(buf, vals):
                                continue
                            from rules.c16 import loop_bound_terms
                            lb = loop_bound_terms(items, le["loops"][0], regs, nout, ins_terms) if le["loops"] else None
                            strides = asm.pointer_strides(le["loops"][0]["body"]) if le["loops"] else {}
                            rev = {k: r_ for k, r_ in regs.items()}
                            # the loop walks a source pointer over (end - start) elements; the destination advances in step
                            dreg = next((r_ for k, r_ in regs.items() if k >= nout and ins_terms[k - nout] == ptr), None)
                            cmpi = next((i_ for i_ in le["loops"][0]["body"] if i_.op == "cmpq"), None) if le["loops"] else None
                            if lb is None or dreg is None or cmpi is None:
                                unknown.append(p["line"])
                                continue
                            walk = cmpi.args[1][1]
                            wstride, dstride = strides.get(walk), strides.get(dreg)
                            wterm = next((ins_terms[k - nout] for k, r_ in regs.items() if k >= nout and r_ == walk), None)
                            if not wstride or not dstride or wterm is None:
                                unknown.append(p["line"])
                                continue
                            from .symexec import pointee_size
                            # elements walked (in source elements) = lb[1] - lb[0]; iterations = that * elemsize / wstride
                            selem = 4 if wstride == 16 else 8
                            iters_x_lanes = to_h(sym.sub(lb[1], lb[0]), vals, nparam)          # source elements
                            lanes_per_iter = wstride // selem
                            dst_per_iter = dstride // 8
                            if lanes_per_iter != dst_per_iter:
                                unknown.append(p["line"])
                                continue
                            sets.append((1, ZERO, iters_x_lanes))
                # combine sets with symbolic offsets: {i + c : i < cnt} with c == count of a base set -> extend it
                base = [s_ for s_ in sets if sym.const_value(s_[1]) is not None]
                sh = [s_ for s_ in sets if sym.const_value(s_[1]) is None]
                for st, off, cnt in sh:
                    merged = False
                    for k, (st2, off2, cnt2) in enumerate(base):
                        if cnt == I(1) and sym.sub(off, sym.mul(I(st2), cnt2)) == off2:
                            base[k] = (st2, off2, sym.add(cnt2, I(1)))       # a single element continues any lattice it lands on
                            merged = True
                            break
                        if st2 == st and sym.sub(off, sym.mul(I(st), cnt2)) == off2:
                            base[k] = (st2, off2, sym.add(cnt2, cnt))
                            merged = True
                            break
                    if not merged:
                        # a strided set whose first element continues the odd/even lattice of another one
                        for k, (st2, off2, cnt2) in enumerate(base):
                            if st2 == st and sym.const_value(off2) is not None:
                                d = sym.sub(off, sym.mul(I(st), cnt2))
                                if sym.const_value(d) is not None and sym.const_value(d) == sym.const_value(off2):
                                    base[k] = (st2, off2, sym.add(cnt2, cnt))
                                    merged = True
                                    break
                    if not merged:
                        unknown.append("offset %s" % sym.show(off))
                if unknown and not base:
                    chk.assumed("R5", key, where=where, detail="fill statements not in a recognised form (lines %s)" % unknown, variant=vn)
                    continue
                ok, detail = covered(base, ext)
                if not ok and unknown:
                    chk.assumed("R5", key, where=where, detail="%s; unrecognised fill statements at %s" % (detail, unknown), variant=vn)
                    continue
                chk.require(ok, "R5", key, where=where, ok="%d fill statement(s): %s; extent %s (with N = 2h)" % (len(sets), detail, sym.show(ext)),
                            bad="%s (extent %s with N = 2h): an element left over from an earlier call or from the allocator feeds the transform" % (
                                detail, sym.show(ext)), variant=vn)
                chk.vcount(vn, "R5.scratch_buffers")


# ------------------------------------------------------------------------------ 1-D coverage of [0, n) by counted loops
def _eval_int(t, env):
    """integer value of a term under env (term -> int); None when not evaluable"""
    if t in env:
        return env[t]
    k = t[0]
    if k == "int":
        return t[1]
    c = sym.const_value(t)
    if c is not None:
        return c
    if k == "call" and t[1] == "$loop_end":
        lo, hi, step, code, _ = t[2]
        lo, hi, step = _eval_int(lo, env), _eval_int(hi, env), _eval_int(step, env)
        if None in (lo, hi, step) or step <= 0 or code[1] not in (0, 1):
            return None
        i = lo
        while (i < hi) if code[1] == 0 else (i <= hi):
            i += step
        return i
    if k == "op" and t[1] in ("&", "%", "/", ">>", "<<"):
        a, b = _eval_int(t[2], env), _eval_int(t[3], env)
        if a is None or b is None or (t[1] in ("%", "/") and b == 0):
            return None
        if t[1] == "&":
            return a & b
        if t[1] == ">>":
            return a >> b
        if t[1] == "<<":
            return a << b
        q = abs(a) // abs(b)
        q = q if (a >= 0) == (b >= 0) else -q
        return q if t[1] == "/" else a - q * b
    if k == "cast":
        return _eval_int(t[2], env)
    if k == "cond":
        cv = _eval_int(t[1], env)
        if cv is None:
            return None
        return _eval_int(t[2] if cv else t[3], env)
    if k == "op" and t[1] in ("<", "<=", ">", ">=", "==", "!="):
        a, b = _eval_int(t[2], env), _eval_int(t[3], env)
        if a is None or b is None:
            return None
        return int({"<": a < b, "<=": a <= b, ">": a > b, ">=": a >= b, "==": a == b, "!=": a != b}[t[1]])
    items = sym.poly_items(t)
    if items is None:
        return None
    tot = 0
    for mono, coef in items:
        v = coef
        for a in mono:
            if a == t:
                return None
            x = _eval_int(a, env)
            if x is None:
                return None
            v *= x
        tot += v
    return tot


def quasi_affine(t, n):
    """t as  slope*n + (a function of the residues of n modulo some constants) + constant:
    -> (slope as a Fraction, set of moduli, bound on the constant part) or None.  Covers n, constants, sums, constant
    multiples, x % c, x / c, x >> c, x << c, x & -2^c (== x - x % 2^c) and the end value of an earlier counted loop."""
    from fractions import Fraction
    if t == n:
        return Fraction(1), set(), 0
    k = t[0]
    c = sym.const_value(t)
    if c is not None:
        return Fraction(0), set(), abs(c)
    if k == "cast":
        return quasi_affine(t[2], n)
    if k == "cond" and t[1][0] == "op" and t[1][1] in ("<", "<=", ">", ">=", "==", "!="):
        # c ? x : y with c a comparison of such terms: either branch, the residues the condition looks at join the period
        parts = [quasi_affine(x, n) for x in (t[1][2], t[1][3], t[2], t[3])]
        if any(q is None for q in parts) or parts[2][0] != parts[3][0]:
            return None
        return parts[2][0], parts[0][1] | parts[1][1] | parts[2][1] | parts[3][1], max(q[2] for q in parts) + 1
    if k == "op" and t[1] in ("%", "/", ">>", "<<", "&"):
        q = quasi_affine(t[2], n)
        cb = sym.const_value(t[3])
        if q is None or cb is None:
            return None
        sl, mods, cst = q
        if t[1] == "&":
            m = -cb
            if m <= 0 or m & (m - 1):
                return None
            return sl, mods | {m}, cst + m
        if t[1] == "<<":
            return sl * (1 << cb), mods, cst << cb
        m = cb if t[1] in ("%", "/") else (1 << cb)
        if m <= 0:
            return None
        if t[1] == "%":
            return Fraction(0), mods | {m}, m
        return sl / m, mods | {m}, cst // m + 1
    if k == "call" and t[1] == "$loop_end":
        lo, hi, step, code, _ = t[2]
        ql, qh, st = quasi_affine(lo, n), quasi_affine(hi, n), sym.const_value(step)
        if ql is None or qh is None or not st or st <= 0 or code[1] not in (0, 1):
            return None
        if ql[0] != 0 and ql[0] != qh[0]:
            return None
        return max(ql[0], qh[0]), ql[1] | qh[1] | {st}, ql[2] + qh[2] + st
    items = sym.poly_items(t)
    if items is None or k != "poly":
        return None
    sl, mods, cst = Fraction(0), set(), 0
    for mono, coef in items:
        if not mono:
            cst += abs(coef)
            continue
        if len(mono) != 1:
            return None
        q = quasi_affine(mono[0], n)
        if q is None:
            return None
        sl += coef * q[0]
        mods |= q[1]
        cst += abs(coef) * q[2]
    return sl, mods, cst


def cover_1d(terms, n, nmin=1):
    """the exact decision (`_cover_1d_exact`) first; when the loop descriptors are outside its fragment (bounds like n / 2, indices
    like n / 2 + i), the index sets are enumerated for n = nmin .. 40 by interpreting the loop descriptors: a mismatch is a concrete
    witness n; agreement on all of them is reported as proved with the bound stated (bounded evidence: every residue of n modulo
    1..8 and both parities of every half are inside the range)."""
    st, det = _cover_1d_exact(terms, n, nmin)
    if st != "unknown":
        return st, det
    from . import concrete
    try:
        for nv in range(max(nmin, 0), 41):
            hits = {}
            for tm in terms:
                lp, ix, sg = tm[0], tm[1], tm[2]
                guards = tm[3] if len(tm) > 3 else []
                for env in concrete.iterate([lp], {n: nv}):
                    gv = [concrete.eval_term(g_, env) for g_ in guards]
                    if any(x is None for x in gv):
                        return "unknown", det
                    if not all(gv):
                        continue
                    iv = concrete.eval_term(ix, env)
                    if iv is None:
                        return "unknown", det
                    hits.setdefault(iv, []).append(sg)
            want = set(range(nv))
            if set(hits) != want or any(len(v_) != 1 for v_ in hits.values()) or len({v_[0] for v_ in hits.values()}) > 1:
                miss, extra = sorted(want - set(hits)), sorted(set(hits) - want)
                dup = sorted(k_ for k_, v_ in hits.items() if len(v_) > 1)
                return "refuted", "n = %d: %s" % (nv, "; ".join(
                    (["index %d never visited" % miss[0]] if miss else []) + (["index %d outside [0, n)" % extra[0]] if extra else []) +
                    (["index %d visited %d times" % (dup[0], len(hits[dup[0]]))] if dup else []) +
                    (["mixed signs"] if not (miss or extra or dup) else [])))
    except concrete.NotEvaluable:
        return "unknown", det
    return "proved", "index sets enumerated for n = %d..40 (outside the closed-form fragment: %s)" % (max(nmin, 0), det[:80])


def _cover_1d_exact(terms, n, nmin=1):
    """terms: [(loop descriptor, index term, sign)], each meaning  sum over the loop of sign * f(index).
    Decides whether the indices are exactly [0, n), once each and with one sign, for EVERY n >= 1.
    Applies to loops with a positive constant step, bounds of the form n + const, a constant, n rounded down to a multiple of a
    constant (n & -4, n - n % 4, (n / 4) * 4) or the end value of an earlier loop, and index = loop variable + const: then the covered set depends on n through floor/residue of (n + const)
    by the steps only, so the statement is periodic in n with period L = lcm(steps) beyond D = max |const|; it is evaluated
    on n = 1 .. D + 2L + 2 by interpreting the loop descriptors (no code is run).
    -> ("proved" | "refuted" | "unknown", detail)"""
    from math import gcd
    L, D = 1, 0

    def simp(t):
        """conditional terms whose condition compares n with a constant are decided by n >= nmin  (n > 0 ? X : 0  ->  X)"""
        if not isinstance(t, tuple) or not t:
            return t
        m = {}
        for st in sym.subterms(t):
            if st[0] == "cond" and st[1][0] == "op" and st[1][1] in ("<", "<=", ">", ">=") and n in (st[1][2], st[1][3]):
                other = st[1][3] if st[1][2] == n else st[1][2]
                c = sym.const_value(other)
                if c is None:
                    continue
                op = st[1][1] if st[1][2] == n else {"<": ">", "<=": ">=", ">": "<", ">=": "<="}[st[1][1]]
                # truth of (n op c) for every n >= nmin, when it is the same for all of them
                if op == ">" and nmin > c or op == ">=" and nmin >= c:
                    m[st] = st[2]
                elif op == "<" and nmin >= c or op == "<=" and nmin > c:
                    m[st] = st[3]
        return sym.rewrite(t, m) if m else t
    terms = [((dict(tm[0], lo=simp(tm[0]["lo"]), hi=simp(tm[0]["hi"])), simp(tm[1]), tm[2]) +
              ((([simp(g_) for g_ in tm[3]]),) if len(tm) > 3 else ())) for tm in terms]
    norm = []
    guards_of = {}
    terms3 = []
    for tm in terms:
        terms3.append(tuple(tm[:3]))
        if len(tm) > 3 and tm[3]:
            guards_of[len(terms3) - 1] = list(tm[3])
    terms = terms3
    for gl in guards_of.values():
        for gd in gl:
            if not (gd[0] == "op" and gd[1] in ("<", "<=", ">", ">=", "==", "!=")):
                return "unknown", "guard %s is not a comparison" % sym.show(gd)
            for side in (gd[2], gd[3]):
                qa = quasi_affine(side, n)
                if qa is None or qa[0] not in (0, 1):
                    return "unknown", "guard operand %s is not n (rounded) plus a constant" % sym.show(side)
                for m in qa[1]:
                    L = L * m // gcd(L, m)
                D = max(D, qa[2])
    for lp, g, sg in terms:
        st_ = sym.const_value(lp["step"])
        if st_ == -1 and lp["cmp"] in (">", ">="):
            # a unit-stride descending loop visits the same values as the ascending loop over its range
            lo_ = sym.add(lp["hi"], I(1)) if lp["cmp"] == ">" else lp["hi"]
            lp = dict(lp, lo=lo_, hi=lp["lo"], cmp="<=", step=I(1))
        norm.append((lp, g, sg))
    terms = norm
    for lp, g, sg in terms:
        s = sym.const_value(lp["step"])
        if s is None or s <= 0 or lp["cmp"] not in ("<", "<="):
            return "unknown", "loop at line %s is not an ascending constant-step loop" % lp.get("l")
        L = L * s // gcd(L, s)
        for bound in (lp["hi"], lp["lo"]):
            qa = quasi_affine(bound, n)
            if qa is None or qa[0] < 0 or qa[0] > 1:
                return "unknown", "bound %s is not n (divided or rounded down by a constant) plus a constant" % sym.show(bound)
            for m in list(qa[1]) + [qa[0].denominator]:
                L = L * m // gcd(L, m)
            D = max(D, qa[2])
        lin = sym.linear_in(g, lp["var"])
        cg = sym.const_value(lin[0]) if lin is not None else None
        qr = quasi_affine(lin[1], n) if cg not in (None, 0) and abs(cg) <= 16 else None
        if qr is None or qr[0] not in (0, 1, -1):
            return "unknown", "index %s is not a constant multiple of the loop variable plus a constant (possibly n)" % sym.show(g)
        for m in list(qr[1]) + [abs(cg)]:
            L = L * m // gcd(L, m)
        D = max(D, qr[2] + abs(cg))
    for nv in range(nmin, nmin + D + 2 * L + 2):
        env = {n: nv}
        seen = {}
        for ti, (lp, g, sg) in enumerate(terms):
            skip_ = False
            for gd in guards_of.get(ti, []):
                ga, gb = _eval_int(gd[2], env), _eval_int(gd[3], env)
                if ga is None or gb is None:
                    return "unknown", "guard %s cannot be evaluated" % sym.show(gd)
                if not {"<": ga < gb, "<=": ga <= gb, ">": ga > gb, ">=": ga >= gb, "==": ga == gb, "!=": ga != gb}[gd[1]]:
                    skip_ = True
            if skip_:
                continue
            lo, hi, s = _eval_int(lp["lo"], env), _eval_int(lp["hi"], env), sym.const_value(lp["step"])
            if lo is None or hi is None:
                return "unknown", "loop range [%s, %s) cannot be evaluated" % (sym.show(lp["lo"]), sym.show(lp["hi"]))
            i = lo
            first_ = bool(lp.get("at_least_once"))
            while first_ or ((i < hi) if lp["cmp"] == "<" else (i <= hi)):
                first_ = False
                e2 = dict(env)
                e2[lp["var"]] = i
                gi = _eval_int(g, e2)
                if gi is None:
                    return "unknown", "index %s cannot be evaluated" % sym.show(g)
                seen.setdefault(gi, []).append(sg)
                i += s
        want = set(range(nv))
        missing = sorted(want - set(seen))
        extra = sorted(set(seen) - want)
        dup = sorted(k for k, v in seen.items() if len(v) > 1)
        signs = {x for v in seen.values() for x in v}
        if missing or extra or dup or len(signs) > 1:
            what = []
            if missing:
                what.append("index %s is never visited" % missing[0])
            if extra:
                what.append("index %s outside [0,n) is visited" % extra[0])
            if dup:
                what.append("index %s is visited %d times" % (dup[0], len(seen[dup[0]])))
            if len(signs) > 1:
                what.append("terms enter with different signs")
            return "refuted", "for n = %d: %s" % (nv, "; ".join(what))
    return "proved", "indices are exactly [0, n), once each, for every n (period %d, checked n = %d..%d)" % (L, nmin, nmin + D + 2 * L + 1)


def filled_by(ps, arr, n, value_ok, want_op="="):
    """Is every element of arr[0..n) assigned exactly once by store pieces whose value passes value_ok(value term, index term)?
    ps: store pieces writing arr[...] (each in at most one loop, possibly guarded).  -> (status, detail, number of statements)
    status: "proved" | "refuted" | "unknown"."""
    terms, n_st = [], 0
    for p in ps:
        if p["kind"] != "store" or p["lv"][0] != "idx" or p["lv"][1] != arr:
            continue
        n_st += 1
        if p["op"] != want_op:
            return "refuted", "statement at line %s uses '%s'" % (p["line"], p["op"]), n_st
        why = value_ok(p["val"], p["lv"][2])
        if why:
            return "refuted", "statement at line %s: %s" % (p["line"], why), n_st
        if len(p["loops"]) > 1:
            return "unknown", "statement at line %s is in a loop nest" % p["line"], n_st
        if p["loops"]:
            terms.append((p["loops"][0], p["lv"][2], 1, list(p["guards"])))
        else:
            u = sym.sym("u@%s" % p["line"])
            pos = p["lv"][2]
            terms.append(({"var": u, "lo": pos, "cmp": "<", "hi": sym.add(pos, I(1)), "step": I(1), "l": p["line"]}, u, 1, list(p["guards"])))
    if not terms:
        return "refuted", "no statement assigns the array", 0
    st, det = cover_1d(terms, n)
    return st, det, n_st
