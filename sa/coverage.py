"""Index-set coverage of scratch buffers (C06.R5) — filled in with the loop summariser (A3)."""


def check_c06_scratch(chk, v):
    return
