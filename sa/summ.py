"""A3 — loop/affine summariser: a function body (callees inlined) as a list of *pieces*
   {loops:[loop effects], guards:[cond terms], lv, op, val, line}   (stores)
   {loops, guards, call: effect}                                     (calls that were not inlined)
Inline assembly that is recognised as a strip-mined element-wise kernel is converted to a piece;
any other asm is kept as an 'asm' piece so that rules can answer "unrecognised".
"""
from . import sym, asm
from .sym import I, ZERO
from .symexec import Hooks, run_function


class InlineLib(Hooks):
    """inline every callee defined in the library sources (bounded depth), except allocation plumbing"""

    def __init__(self, stop=None, only=None):
        self.stop = stop or (lambda f: False)
        self.only = only

    def want_inline(self, ex, callee, node):
        if not callee.file.startswith(("libtfhe/", "include/")):
            return False
        if callee.get("lambda"):
            return ex.depth < 8          # a closure's body is part of the function that wrote it
        if callee.name.startswith(("new_", "delete_", "alloc_", "free_", "init_", "destroy_")) or callee.get("kind") in ("ctor", "dtor"):
            return False
        if self.stop(callee):
            return False
        if self.only is not None and not self.only(callee):
            return False
        return ex.depth < 8


def _file_local(f):
    """a helper with internal linkage (static, not a member): part of the implementation of whoever calls it"""
    return (bool(f.get("static")) and not f.get("record")) or bool(f.get("lambda"))


# "the function on its own": nothing inlined except its file-local static helpers
LOCAL_HELPERS = InlineLib(only=_file_local)


def _is_assert_failure(effs):
    real = [y for y in effs if y["e"] not in ("exit",)]
    return len(real) == 1 and real[0]["e"] == "call" and real[0].get("noreturn") and "assert" in real[0]["name"]


def walk_all(effs, loops=None, guards=None, stack=None, pre=None):
    """(effect, loops, guards, inline stack, preconditions); preconditions are the conditions of passed assertions"""
    loops = loops or []
    guards = list(guards or [])
    stack = stack or []
    pre = list(pre or [])
    for x in effs:
        e = x["e"]
        if e == "loop":
            yield from walk_all(x["body"], loops + [x], guards, stack, pre)
            if x.get("latch"):
                # the latch runs after every iteration, including those cut short by `continue`
                yield from walk_all(x["latch"], loops + [x], guards, stack, pre)
        elif e == "while":
            yield x, loops, guards, stack, pre
            yield from walk_all(x["body"], loops + [x], guards, stack, pre)
        elif e == "if":
            ts, es = x.get("then_status", "fall"), x.get("else_status", "fall")
            if _is_assert_failure(x["then"]) and not x["else"]:
                pre = pre + [sym.unop("!", x["cond"])]
                continue
            if _is_assert_failure(x["else"]) and not x["then"]:
                pre = pre + [x["cond"]]
                continue
            yield x, loops, guards, stack, pre
            yield from walk_all(x["then"], loops, guards + [x["cond"]], stack, pre)
            yield from walk_all(x["else"], loops, guards + [sym.unop("!", x["cond"])], stack, pre)
            # a branch that leaves (continue / break / return / abort) guards everything that follows it
            if ts != "fall" and es == "fall":
                guards = guards + [sym.unop("!", x["cond"])]
            elif es != "fall" and ts == "fall":
                guards = guards + [x["cond"]]
        elif e == "inlined":
            yield from walk_all(x["body"], loops, guards, stack + [x["name"]], pre)
        else:
            yield x, loops, guards, stack, pre


def asm_to_pieces(x):
    """recognised element-wise kernels -> store pieces; None if not recognised"""
    node = x["node"]
    items = asm.inline_items(node["template"])
    asm.check_mnemonics(items, "inline asm line %s" % x["l"])
    regs, nout = asm.inline_operand_regs(node)
    ins = x["ins"]
    by_reg = {regs[nout + k]: t for k, (c, t) in enumerate(ins)}
    if {"rdi", "rsi", "rdx"} <= set(by_reg):
        cl = asm.classify_stripmined(items, {"dst": "rdi", "src": "rsi", "n": "rdx"})
        if cl["facts"].get("main_width"):
            op = cl["facts"].get("op")
            iv = sym.sym("lane@%s" % x["l"])
            loop = {"e": "loop", "var": iv, "lo": ZERO, "cmp": "<", "hi": by_reg["rdx"], "step": I(1), "body": [],
                    "l": x["l"], "name": "lane", "asm": True}
            val = None
            if op == ("-", "r", "a"):
                opname = "-="
            elif op == ("+", "r", "a"):
                opname = "+="
            else:
                opname = None
            piece = {"loops": [loop], "guards": [], "lv": sym.idx(by_reg["rdi"], iv), "op": opname,
                     "val": sym.idx(by_reg["rsi"], iv), "line": x["l"], "asm": cl}
            return [piece]
    return None


def pieces(v, fn, hooks=None, args=None):
    hooks = hooks or InlineLib()
    eff, st, ex = run_function(v, fn, hooks=hooks, args=args)
    out = []
    for x, loops, guards, stack, pre in walk_all(eff):
        e = x["e"]
        if e == "store":
            out.append({"kind": "store", "loops": loops, "guards": guards, "lv": x["lv"], "op": x["op"], "val": x["val"],
                        "line": x["l"], "stack": stack, "pre": pre, "t": x.get("t", ""), "ctor_init": x.get("ctor_init", False), "byref": x.get("byref")})
        elif e == "asm":
            ps = asm_to_pieces(x)
            if ps is None:
                out.append({"kind": "asm", "loops": loops, "guards": guards, "eff": x, "line": x["l"], "stack": stack, "pre": pre})
            else:
                for p in ps:
                    p = dict(p)
                    p["kind"] = "store"
                    p["loops"] = loops + p["loops"]
                    p["guards"] = guards
                    p["stack"] = stack
                    p["pre"] = pre
                    out.append(p)
        elif e == "call":
            out.append({"kind": "call", "loops": loops, "guards": guards, "eff": x, "line": x["l"], "stack": stack, "pre": pre,
                        "name": x["name"], "args": x["args"]})
        elif e in ("while", "unknown"):
            out.append({"kind": e, "loops": loops, "guards": guards, "eff": x, "line": x["l"], "stack": stack, "pre": pre})
        elif e == "return":
            if stack:
                # the return of an inlined callee is a value flow (its value is the call's value), not an exit of the function
                out.append({"kind": "ireturn", "loops": loops, "guards": guards, "val": x.get("val"), "line": x["l"], "stack": stack, "pre": pre})
                continue
            out.append({"kind": "return", "loops": loops, "guards": guards, "val": x.get("val"), "line": x["l"], "stack": stack, "pre": pre})
        elif e == "local":
            out.append({"kind": "local", "loops": loops, "guards": guards, "eff": x, "line": x["l"], "stack": stack, "pre": pre,
                        "name": x["name"], "id": x["id"], "op": x["op"], "val": x["val"]})
    return out, eff


def opaque_writers(v, ps, root=None):
    """pieces through which memory may be written without the analysis seeing the statement: calls of functions that are not defined
    in the library and take a pointer (rooted at `root`, or any pointer when root is None), indirect calls, unrecognised constructs,
    loops without a closed form, inline asm that was not classified.  A rule that is about to conclude "this element is never
    written" must first see that this list is empty; otherwise the honest answer is undecided."""
    out = []
    for p in ps:
        k = p["kind"]
        if k in ("unknown", "while", "asm"):
            out.append(p)
        elif k == "call":
            x = p.get("eff") or {}
            if x.get("noreturn"):
                continue
            if x.get("usr") in v.defs:
                continue                     # a library function the rule chose not to inline: its own rule decides it
            if x.get("kind") == "construct" and (p.get("name") or "").startswith("std::"):
                continue                     # building a standard iterator / functor object from a pointer writes nothing through it
            for a in [a_ for a_ in (p.get("args") or []) if isinstance(a_, tuple)] + ([x["this"]] if isinstance(x.get("this"), tuple) else []):
                r_ = sym.root_of(a) if a and a[0] in ("idx", "fld", "addr", "cast", "sym", "var", "new", "obj") else None
                if a and a[0] in ("addr", "idx", "fld", "var", "sym", "new", "obj") and (root is None or r_ == root):
                    if a[0] in ("var", "sym") and root is None:
                        continue
                    out.append(p)
                    break
    return out


def value_not_redrawn(ps, arr, is_draw_call):
    """a statement in a loop that stores a random draw into arr[...]: the call that draws must be evaluated inside the same loop
    nest (once per element).  `std::fill_n(p, n, draw())` evaluates its argument once: every element gets the same value.
    -> the first offending store piece, or None"""
    def holds_draw(p_):
        val = p_.get("val")
        return isinstance(val, tuple) and any(st_[0] == "call" and is_draw_call({"name": st_[1]}) for st_ in sym.subterms(val))
    for p in ps:
        if p["kind"] != "store" or p["lv"][0] != "idx" or not p["loops"]:
            continue
        # the statement that stores the draw -- into arr itself, or into a scratch array private to the call that is copied to arr
        # afterwards (the draw then happens in the scratch array's fill loop)
        if not holds_draw(p) or not (arr is None or p["lv"][1] == arr or sym.root_of(p["lv"])[0] in ("var", "new")):
            continue
        lv = [l.get("var") for l in p["loops"]]
        if not any(c["kind"] == "call" and is_draw_call(c) and [l.get("var") for l in c["loops"]][:len(lv)] == lv for c in ps):
            return p
    return None


def noise_added_later(ps, arr, draw_name="gaussian32"):
    """some statement updates arr[...] with a draw applied to the element's own content (`b[j] = gaussian32(b[j], alpha)`,
    `b[j] += noise`): the array is not initialised with the noise but receives it in a later pass -- another arrangement of the
    same sum, which a rule that looks for `b[j] = noise` first does not decide"""
    for p in ps:
        if p["kind"] == "store" and p["lv"][0] == "idx" and p["lv"][1] == arr and isinstance(p.get("val"), tuple):
            for st in sym.subterms(p["val"]):
                if st[0] == "call" and st[1] == draw_name and (p["op"] in ("+=", "-=") or (st[2] and st[2][0] != ZERO)):
                    return p
    return None


def is_gaussian_draw(ps, val, alpha=None):
    """val is a fresh centred Gaussian of the given standard deviation on the torus: gaussian32(0, alpha), or what gaussian32 itself
    computes written out -- dtot32 of a draw, with the process generator, from a std::normal_distribution that THIS call constructed
    as (0, alpha) in an automatic variable (a static one is constructed once per process and keeps the first call's alpha)"""
    while isinstance(val, tuple) and val and val[0] == "cast":
        val = val[2]
    if not (isinstance(val, tuple) and val and val[0] == "call"):
        return False
    if val[1] == "gaussian32":
        return len(val[2]) == 2 and val[2][0] == ZERO and (alpha is None or val[2][1] == alpha)
    if val[1] == "dtot32" and len(val[2]) == 1:
        d = val[2][0]
        if isinstance(d, tuple) and d and d[0] == "call" and d[1].startswith("std::normal_distribution") and d[1].endswith("operator()") and len(d[2]) == 2 \
                and d[2][1] == ("glob", "generator") and d[2][0][0] == "var":
            obj = d[2][0]
            for c in ps:
                if c["kind"] == "call" and c["name"].startswith("std::normal_distribution") and c["name"].endswith("::normal_distribution") and \
                        (c.get("eff") or {}).get("this") == sym.addr(obj):
                    a = [x for x in c["args"] if x is not None]
                    zero = len(a) == 2 and (a[0] == ZERO or (a[0][0] == "float" and a[0][1] == 0))
                    return zero and (alpha is None or a[1] == alpha)
    return False


def show_opaque(ps_):
    return ", ".join("%s at line %s" % (p.get("name") or p["kind"], p["line"]) for p in ps_[:3])


def _unused():
    pass


def loop_sig(lp):
    return (lp["lo"], lp["cmp"], lp["hi"], lp["step"])


def show_piece(p):
    rng = " ".join(("for %s in [%s %s %s)" % (sym.show(l["var"]), sym.show(l["lo"]), l["cmp"], sym.show(l["hi"]))) if "var" in l else
                   "while (%s)" % sym.show(l.get("cond", ("unk", "?")))[:60] for l in p["loops"])
    g = (" if " + " && ".join(sym.show(c) for c in p["guards"])) if p["guards"] else ""
    if p["kind"] == "store":
        return "%s%s: %s %s %s" % (rng, g, sym.show(p["lv"]), p["op"], sym.show(p["val"]))
    if p["kind"] == "call":
        return "%s%s: %s(%s)" % (rng, g, p["name"], ", ".join(sym.show(a) for a in p["args"] if a is not None))
    return "%s%s: <%s>" % (rng, g, p["kind"])


def fold_accumulators(ps):
    """Normalise  `T acc = init; loop: acc (op)= x; ...; *dst = acc;`  to the statements on *dst itself:
    `*dst = init; loop: *dst (op)= x`.  Applies when a store's value is exactly a scalar local that is only declared and
    accumulated (no other use between), and the final store is unconditional and outside loops."""
    out = _fold_sums(list(ps))
    changed = True
    while changed:
        changed = False
        for k, p in enumerate(out):
            if p["kind"] != "store" or p["op"] not in ("=", "+=", "-=") or p["loops"] or p["guards"]:
                continue
            val = p["val"]
            if not (isinstance(val, tuple) and val and val[0] == "var"):
                continue
            vid = val[2]
            loc = [(j, q) for j, q in enumerate(out) if q["kind"] == "local" and q.get("id") == vid and j < k]
            if not loc or loc[0][1]["op"] != "decl" or any(q["op"] not in ("decl", "+=", "-=") for _, q in loc):
                continue
            # the local must not be read anywhere else before the final store
            used = False
            for j, q in enumerate(out):
                if j == k or (j, q) in loc:
                    continue
                terms = [q.get("val")] + list(q.get("args") or []) + [q.get("lv")]
                if any(t is not None and sym.contains(t, val) for t in terms):
                    used = True
            if used:
                continue
            new = []
            for j, q in enumerate(out):
                if j == k:
                    continue
                if (j, q) in loc:
                    r = dict(q)
                    r["kind"] = "store"
                    r["lv"] = p["lv"]
                    if p["op"] == "=":
                        r["op"] = "=" if q["op"] == "decl" else q["op"]
                    else:
                        # *dst += acc  (resp. -=): the initial value and every increment are added to (subtracted from) *dst
                        sign = {"decl": 1, "+=": 1, "-=": -1}[q["op"]] * (1 if p["op"] == "+=" else -1)
                        r["op"] = "+=" if sign > 0 else "-="
                        r["onto_previous"] = True
                    r["folded_from"] = q.get("name")
                    r.setdefault("t", p.get("t", ""))
                    new.append(r)
                else:
                    new.append(q)
            out = new
            changed = True
            break
    return out


def _fold_sums(ps):
    """`T a1 = i1, a2 = i2; loops: a1 += x; a2 -= y; ...; *dst = E + a1 - a2;`  ->  `*dst = E + i1 - i2; loops: *dst += x; *dst += y`
    (accumulators -- also the value returned by an inlined helper -- that enter an unconditional final assignment linearly
    with coefficient +1 or -1 next to other terms E; E is a term, so moving it is harmless).  The plain `*dst = acc` form is
    handled by fold_accumulators itself."""
    out = list(ps)
    for k, p in enumerate(out):
        if p["kind"] != "store" or p["op"] != "=" or p["loops"] or p["guards"]:
            continue
        val = p["val"]
        if not isinstance(val, tuple) or not val or val[0] != "poly":
            continue
        accs = {}
        for mono, c in sym.poly_items(val):
            if len(mono) == 1 and mono[0][0] == "var" and len(mono[0]) > 2 and c in (1, -1):
                accs[mono[0]] = c
        chosen = {}
        for V, c in accs.items():
            if any(len(m) > 1 and V in m for m, _ in sym.poly_items(val)):
                continue
            vid = V[2]
            loc = [(j, q) for j, q in enumerate(out) if q["kind"] == "local" and q.get("id") == vid and j < k]
            if not loc or loc[0][1]["op"] != "decl" or any(q["op"] not in ("decl", "+=", "-=") for _, q in loc) or \
                    loc[0][1]["loops"] or loc[0][1]["guards"] or len([1 for _, q in loc if q["op"] == "decl"]) != 1:
                continue
            used = False
            for j, q in enumerate(out):
                if j == k or (j, q) in loc:
                    continue
                if q["kind"] in ("return", "ireturn") and q.get("val") == V and len(q.get("stack") or []) > len(p.get("stack") or []):
                    continue      # the value an inlined helper hands back: that is how it reaches the assignment
                terms = [q.get("val")] + list(q.get("args") or []) + [q.get("lv")]
                if any(t is not None and isinstance(t, tuple) and sym.contains(t, V) for t in terms):
                    used = True
            if not used:
                chosen[V] = (c, loc)
        if not chosen:
            continue
        E = val
        for V, (c, loc) in chosen.items():
            E = sym.add(sym.sub(E, sym.mul(I(c), V)), sym.mul(I(c), loc[0][1]["val"]))
        first = min(loc[0][0] for _, loc in chosen.values())
        drop = {loc[0][0] for _, loc in chosen.values()} | {k}
        repl = {}
        for V, (c, loc) in chosen.items():
            for j, q in loc[1:]:
                r = dict(q)
                r["kind"] = "store"
                r["lv"] = p["lv"]
                sign = (1 if q["op"] == "+=" else -1) * c
                r["op"] = "+=" if sign > 0 else "-="
                r["folded_from"] = q.get("name")
                r.setdefault("t", p.get("t", ""))
                repl[j] = r
        new = []
        for j, q in enumerate(out):
            if j == first:
                r = dict(p)
                r["val"] = E
                r["line"] = p["line"]
                new.append(r)
            if j in drop:
                continue
            new.append(repl.get(j, q))
        return _fold_sums(new)
    return out


def forward_stored_calls(ps):
    """`T x = f(..); *dst = x; ... use(x)`  ->  `*dst = f(..); ... use(*dst)`: a call result that is stored to memory and
    also used directly is rewritten, in the later statements of the same loop nest, to a load of the location it was
    stored to.  Applies only when the function makes that call at exactly one site (so that every occurrence of the
    term denotes the one evaluation of the current iteration) and the location is written by no other statement."""
    out = list(ps)
    nsites = {}
    for p in ps:
        if p["kind"] == "call" and p.get("eff") and p["eff"].get("ret") is not None:
            nsites[p["eff"]["ret"]] = nsites.get(p["eff"]["ret"], 0) + 1
    for k, p in enumerate(ps):
        if p["kind"] != "store" or p["op"] != "=" or p.get("byref"):
            continue
        V = p["val"]
        if not (isinstance(V, tuple) and V and V[0] == "call") or nsites.get(V) != 1:
            continue
        if sum(1 for q in ps if q["kind"] == "store" and q["lv"] == p["lv"]) != 1:
            continue
        for j in range(k + 1, len(out)):
            q = out[j]
            if q["loops"][:len(p["loops"])] != p["loops"] or q["kind"] == "call" and q.get("eff") and q["eff"].get("ret") == V:
                continue
            r = None
            for fld_ in ("val", "lv"):
                t = q.get(fld_)
                if t is not None and isinstance(t, tuple) and sym.contains(t, V):
                    r = r or dict(q)
                    r[fld_] = sym.subst(t, {V: p["lv"]})
            if q.get("args") and any(a is not None and isinstance(a, tuple) and sym.contains(a, V) for a in q["args"]):
                r = r or dict(q)
                r["args"] = [sym.subst(a, {V: p["lv"]}) if a is not None and isinstance(a, tuple) else a for a in q["args"]]
            if r is not None:
                out[j] = r
    return out


# ---------------------------------------------------------------- hand-inlined library functions
def closed_return(v, name):
    """(parameter symbols, return term) of a library function whose body folds to one closed return expression"""
    f = v.fn(name, required=False)
    if f is None:
        return None
    ps, _ = pieces(v, f, hooks=LOCAL_HELPERS)
    rets = [p for p in ps if p["kind"] == "return"]
    if len(rets) != 1 or rets[0]["loops"] or rets[0]["guards"] or any(p["kind"] in ("asm", "while", "unknown", "store", "call") for p in ps):
        return None
    return [sym.sym(p["n"]) for p in f.params], rets[0]["val"]


def _consts(t):
    return {st[1] for st in sym.subterms(t) if st[0] == "int" and abs(st[1]) > 4} | \
        {c for st in sym.subterms(t) if st[0] == "poly" for _, c in st[1] if abs(c) > 4}


def fold_inline_calls(v, ps, names):
    """Rewrite, in the terms of the pieces, every expression that is an instance of the closed return term of one of the
    named library functions (a call the programmer expanded by hand, with loop-invariant parts hoisted) back into the
    call term name(args).  An instance is found by substituting candidate sub-terms for the parameters and comparing
    normal forms, so the rewrite is exact: the expression IS the function's body on those arguments."""
    out = list(ps)
    for name in names:
        cr = closed_return(v, name)
        if cr is None:
            continue
        params, pat = cr
        need = _consts(pat)
        mapping = {}

        def visit(t):
            if t is None or not isinstance(t, tuple):
                return
            for st in sym.subterms(t):
                if st in mapping or st[0] != pat[0] or (pat[0] == "op" and st[1] != pat[1]):
                    continue
                if not need <= _consts(st):
                    continue
                cands = [c for c in dict.fromkeys(sym.subterms(st)) if c[0] in ("sym", "idx", "fld", "poly", "var", "call") and c != st][:40]
                import itertools
                for combo in itertools.product(cands, repeat=len(params)):
                    if sym.subst(pat, dict(zip(params, combo))) == st:
                        mapping[st] = ("call", name, tuple(combo))
                        break
        for p in out:
            for fld_ in ("val", "lv"):
                visit(p.get(fld_))
            for a in p.get("args") or []:
                visit(a)
        if not mapping:
            continue
        new = []
        for p in out:
            r = dict(p)
            for fld_ in ("val", "lv"):
                if isinstance(r.get(fld_), tuple):
                    r[fld_] = sym.rewrite(r[fld_], mapping)
            if r.get("args"):
                r["args"] = [sym.rewrite(a, mapping) if isinstance(a, tuple) else a for a in r["args"]]
            new.append(r)
        out = new
    return out


def visits(lp, lo, hi):
    """the counted loop visits exactly the integers of [lo, hi), once each (unit stride, ascending `<` / `<=` or descending)"""
    if "var" not in lp:
        return False
    st = sym.const_value(lp["step"])
    if st == 1 and lp["cmp"] in ("<", "<="):
        return lp["lo"] == lo and (lp["hi"] if lp["cmp"] == "<" else sym.add(lp["hi"], I(1))) == hi
    if st == -1 and lp["cmp"] in (">", ">="):
        return (sym.add(lp["hi"], I(1)) if lp["cmp"] == ">" else lp["hi"]) == lo and sym.add(lp["lo"], I(1)) == hi
    return False


def memcpy_as_stores(v, fn, ps):
    """memcpy / memmove(dst, src, nbytes) between typed arrays as the element statement it stands for:
    for u in [0, nbytes / sizeof(element)): dst[u] = src[u]   (element type from the record field or parameter the destination
    is reached through; left alone when the type is not known or the byte count is not a multiple of the element size)"""
    from .ioseq import type_of
    from .symexec import pointee_size
    roots = {sym.sym(p["n"]): p["t"] for p in fn.params}
    out = []
    for p in ps:
        if p["kind"] == "call" and p["name"] in ("memcpy", "std::memcpy", "memmove", "std::memmove") and len(p["args"]) == 3 \
                and all(a is not None for a in p["args"]):
            strip = lambda t: strip(t[2]) if t[0] == "cast" else t
            dst, src, nb = strip(p["args"][0]), strip(p["args"][1]), strip(p["args"][2])
            ty = type_of(v, dst, roots)
            es = pointee_size(ty, v.records) if ty else None
            cnt = None
            if es:
                if es == 1:
                    cnt = nb
                else:
                    items = sym.poly_items(nb)
                    if items and all(c % es == 0 for _, c in items):
                        cnt = sym.binop("/", nb, I(es)) if sym.const_value(nb) is None else I(sym.const_value(nb) // es)
            if cnt is not None:
                u = sym.sym("u@%s" % p["line"])
                lp = {"e": "loop", "var": u, "lo": ZERO, "cmp": "<", "hi": cnt, "step": I(1), "body": [], "l": p["line"], "name": "u",
                      "algorithm": p["name"]}
                out.append({"kind": "store", "loops": p["loops"] + [lp], "guards": p["guards"], "lv": sym.idx(dst, u), "op": "=",
                            "val": sym.idx(src, u), "line": p["line"], "stack": p.get("stack"), "pre": p.get("pre"), "from_call": p["name"]})
                continue
        out.append(p)
    return out


def forward_local_arrays(ps):
    """`T tmp[n]; for u<n: tmp[u] = V(u); ... ; for w<n: dst[w] = tmp[w]`  ->  `for w<n: dst[w] = V(w)`: a value that reaches its
    destination through a scratch array private to the call (a local array, a std::vector, a new[] buffer) that is filled by
    exactly one statement in one loop.  The fill statement itself is kept (other rules look at the scratch array)."""
    fills = {}
    for p in ps:
        if p["kind"] == "store" and p["lv"][0] == "idx" and len(p["loops"]) >= 1 and p["op"] == "=":
            base = p["lv"][1]
            r = sym.root_of(base)
            if r is not None and r[0] in ("var", "new") and base == r and p["lv"][2] == p["loops"][-1].get("var") \
                    and not (p.get("algorithm") == "std::vector"):
                fills.setdefault(base, []).append(p)
    # the value-initialisation of a std::vector is not a fill: drop it from the candidates when a real fill exists
    single = {}
    for base, fl in fills.items():
        real = [p for p in fl if not (p["val"] == ZERO and p["loops"][-1].get("algorithm") == "std::vector")]
        if len(real) == 1:
            single[base] = real[0]
    if not single:
        return ps
    out = []
    for p in ps:
        if p["kind"] == "store" and isinstance(p.get("val"), tuple):
            val = p["val"]
            w = val
            while w[0] == "cast":
                w = w[2]
            if w[0] == "idx" and w[1] in single and single[w[1]] is not p and sym.root_of(p["lv"]) != w[1]:
                f = single[w[1]]
                r = dict(p)
                r["val"] = sym.subst(f["val"], {f["loops"][-1]["var"]: w[2]})
                r["through_scratch"] = sym.show(w[1])
                out.append(r)
                continue
        out.append(p)
    return out


def table_loader(ps):
    """load function for sym.fold: elements of a local array that are each written by exactly one unguarded statement outside
    any loop with a literal subscript (`const T t[2] = {a, b}`) and never written otherwise read as the stored value"""
    cells, dirty = {}, set()
    for p in ps:
        if p["kind"] == "call":
            for a in p["args"]:
                ra = sym.root_of(a) if isinstance(a, tuple) and a[0] in ("addr", "var", "idx") else None
                if ra is not None and ra[0] == "var" and (a == ra or a[0] == "addr"):
                    dirty.add(ra)           # the array itself is handed to a callee
        if p["kind"] != "store":
            continue
        lv = p["lv"]
        r = sym.root_of(lv)
        if r is None or r[0] != "var":
            continue
        if lv[0] == "idx" and lv[1] == r and lv[2][0] == "int" and not p["loops"] and not p["guards"] and p["op"] == "=":
            if lv in cells:
                dirty.add(r)
            cells[lv] = p["val"]
        elif lv != r:
            dirty.add(r)

    def load(lv):
        if lv[0] == "idx" and lv[1][0] == "var" and lv[1] not in dirty:
            return cells.get(lv)
        return None
    return load
