"""A2 — mod effects over access paths, bottom-up over the call graph (fixpoint for recursion).

A summary is a set of (root, fields) where root is ("param", i) | ("this",) | ("glob", qname) and
fields is the tuple of field names traversed (array steps dropped).  Evidence (file:line, how) is
kept for the first occurrence of each entry.
"""
from . import sym, asm
from .symexec import Hooks, Exec, flat
from .pipeline import AnalysisBroken

EXTERNAL_WRITES = {       # external functions that write through a pointer argument: name -> arg indexes
    "memcpy": [0], "memmove": [0], "memset": [0], "strcpy": [0], "strncpy": [0], "sprintf": [0], "snprintf": [0],
    "fread": [0], "std::fread": [0], "std::memcpy": [0], "std::memset": [0], "std::memmove": [0],
    "std::sprintf": [0], "std::snprintf": [0], "std::getline": [1],
    "fft_transform": [1, 2], "fft_transform_reverse": [1, 2], "fft": [1], "ifft": [1],
}
ALLOCATORS = ("malloc", "calloc", "realloc", "aligned_alloc", "_mm_malloc", "fftw_malloc", "posix_memalign",
              "std::malloc", "operator new", "operator new[]")


def fields_of(t):
    return tuple(s[1:] for s in sym.path_of(t)[1:] if isinstance(s, str) and s.startswith("."))


class Effects:
    def __init__(self, v):
        self.v = v
        self.eff = {}        # usr -> (effects, exec)
        self.summ = {}       # usr -> {(root, fields): evidence}
        self.asm_summ = None
        self._computed = False
        self.exempt = {}     # usr -> set of (root, fields) proved harmless by a rule (e.g. balanced add/remove)

    # ---- effect trees (cached, no inlining)
    def effects_of(self, usr):
        if usr not in self.eff:
            f = self.v.defs[usr]
            ex = Exec(self.v, f, hooks=Hooks())
            try:
                effs, st = ex.run()
            except RecursionError:
                raise AnalysisBroken("expression too deep in %s" % f.q)
            self.eff[usr] = (effs, ex)
        return self.eff[usr]

    # ---- points-to of reassigned pointer locals
    @staticmethod
    def local_values(effs):
        pts = {}
        for x in flat(effs):
            if x["e"] == "local" and x["op"] in ("=", "decl"):
                pts.setdefault(x["id"], set()).add(x["val"])
            elif x["e"] == "store" and x["op"] == "=" and x["lv"][0] == "var" and isinstance(x.get("val"), tuple):
                pts.setdefault(x["lv"][2], set()).add(x["val"])
        return pts

    def roots_of(self, t, pts, fn, depth=0):
        """set of (root key, fields) a pointer/lvalue term may designate"""
        r = sym.root_of(t)
        fl = fields_of(t)
        if r is None:
            if t[0] == "cond":
                return self.roots_of(t[2], pts, fn, depth) | self.roots_of(t[3], pts, fn, depth)
            return set()
        if r[0] == "sym":
            names = [p["n"] for p in fn.params]
            if r[1] == "this":
                return {(("this",), fl)}
            if r[1] in names:
                return {(("param", names.index(r[1])), fl)}
            return set()
        if r[0] == "glob":
            return {(("glob", r[1]), fl)}
        if r[0] == "var" and depth < 6:
            out = set()
            for val in pts.get(r[2], ()):
                for (rk, f2) in self.roots_of(val, pts, fn, depth + 1):
                    out.add((rk, f2 + fl))
            return out
        return set()     # fresh objects, unknowns

    def compute(self):
        if self._computed:
            return
        v = self.v
        order = list(v.defs)
        for u in order:
            self.summ[u] = {}
        # virtual dispatch: calls to a virtual method may run any overrider
        overriders = {}
        for usr, f in v.decls.items():
            for o in f.d.get("overrides", []):
                overriders.setdefault(o, set()).add(usr)
        self.asm_summ = asm_function_summaries(v)
        changed = True
        rounds = 0
        while changed:
            changed = False
            rounds += 1
            if rounds > 30:
                raise AnalysisBroken("effects fixpoint did not converge")
            for u in order:
                f = v.defs[u]
                effs, ex = self.effects_of(u)
                pts = self.local_values(effs)
                cur = self.summ[u]

                def add(rk, fl, ev, _u=u):
                    nonlocal changed
                    fl = fl[:6]
                    if (rk, fl) in self.exempt.get(_u, ()):
                        return
                    if (rk, fl) not in cur:
                        cur[(rk, fl)] = ev
                        changed = True

                for x in flat(effs):
                    e = x["e"]
                    where = "%s:%s" % (f.file, x.get("l"))
                    if e == "store":
                        if x["lv"][0] == "var":
                            continue        # assignment to the local variable itself
                        for rk, fl in self.roots_of(x["lv"], pts, f):
                            add(rk, fl, (where, "store %s %s" % (sym.show(x["lv"])[:60], x["op"])))
                    elif e == "asm":
                        ie = asm.inline_effects(x)
                        for t in ie["writes"]:
                            for rk, fl in self.roots_of(t, pts, f):
                                add(rk, fl, (where, "inline asm store through %s" % sym.show(t)[:60]))
                    elif e == "call":
                        name, cusr = x["name"], x.get("usr")
                        args = x["args"]
                        targets = [cusr] + (sorted(overriders.get(cusr, ())) if x.get("virtual") else [])
                        for tu in targets:
                            if tu in self.summ:
                                for (rk, fl), ev in list(self.summ[tu].items()):
                                    if rk[0] == "param":
                                        a = args[rk[1]] if rk[1] < len(args) else None
                                    elif rk[0] == "this":
                                        a = x.get("this")
                                    else:
                                        add(rk, fl, (where, "via %s: %s" % (name, ev[1])))
                                        continue
                                    if a is None:
                                        continue
                                    for rk2, fl2 in self.roots_of(a, pts, f):
                                        add(rk2, fl2 + fl, (where, "via %s: %s" % (name, ev[1][:80])))
                        if cusr not in self.summ:
                            widx = EXTERNAL_WRITES.get(name)
                            if widx is None and name in self.asm_summ:
                                widx = self.asm_summ[name]
                            for i in widx or []:
                                if i < len(args) and args[i] is not None:
                                    for rk2, fl2 in self.roots_of(args[i], pts, f):
                                        add(rk2, fl2, (where, "external %s writes its argument %d" % (name, i)))
        self._computed = True

    def mod(self, usr):
        self.compute()
        return self.summ.get(usr, {})


def asm_function_summaries(v):
    """functions defined in .s units: which pointer arguments they store through.
    Every store's base register is traced to the argument register it derives from, either directly
    or through one load from the argument (a field of the record the argument points to)."""
    out = {}
    for u in v.asm_units:
        text = v.prog.asm_text(u)
        for name, items in asm.functions_of(text).items():
            asm.check_mnemonics(items, "%s:%s" % (u["file"], name))
            root = {r: i for i, r in enumerate(asm.ARGREGS)}
            written = set()
            for it in items:
                if not isinstance(it, asm.Ins):
                    continue
                args = it.args
                for j, a in enumerate(args):
                    if a[0] == "mem" and it.op != "leaq":
                        base = asm.SUB.get(a[2], (a[2], 8))[0] if a[2] else None
                        is_store = (j == len(args) - 1) and not it.op.startswith(("cmp", "test")) and it.op != "pushq"
                        if is_store and base in root:
                            written.add(root[base])
                if it.op in ("movq", "mov", "movl", "leaq") and len(args) == 2 and args[1][0] == "reg":
                    dst = asm.SUB.get(args[1][1], (args[1][1], 8))[0]
                    src = None
                    if args[0][0] == "reg":
                        src = asm.SUB.get(args[0][1], (args[0][1], 8))[0]
                    elif args[0][0] == "mem" and args[0][2]:
                        src = asm.SUB.get(args[0][2], (args[0][2], 8))[0]   # pointer loaded from / derived from base
                    if src in root:
                        root[dst] = root[src]
                    else:
                        root.pop(dst, None)
                elif it.op == "popq" and args and args[0][0] == "reg":
                    root.pop(args[0][1], None)
            out[name] = sorted(written)
    return out
