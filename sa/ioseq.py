"""A8 — I/O op-sequence extraction for the serialisation layer.

The writer and reader functions are folded by the symbolic executor (callees that
take a stream are inlined, default-argument tests are decided per call site) into a
tree of primitive ops:
  bin   (dir, ptr term, size term)          Ostream::fwrite / Istream::fread
  text  (dir, title, [(key, kind, value)])  one TextModeProperties section
  rep   (var, lo, cmp, hi, step, body)      canonical loop containing ops
  if    (cond, then, else)                  undecided branch containing ops
The primitives are identified by type, not by file or text: virtual methods of the
abstract stream records taking (pointer, size), and the methods of the abstract
property record.
"""
from . import sym
from .sym import I, ZERO
from .symexec import Hooks, Exec, flat, run_function
from .facts import walk
from .pipeline import AnalysisBroken

STREAM_RECORDS = ("Istream", "Ostream")
PROPS_RECORD = "TextModeProperties"


CARRIERS = STREAM_RECORDS + ("FILE", "basic_ostream", "basic_istream")


def has_stream_param(fn):
    return any(any(r in p["t"] for r in CARRIERS) for p in fn.params)


def is_stream_method(fn):
    return fn.get("record") in STREAM_RECORDS + ("CIstream", "COstream", "StdIstream", "StdOstream")


class IOHooks(Hooks):
    """inline everything that carries a stream; decide default-argument tests"""
    unroll_literal = 32          # table-driven sections (`for (i = 0; i < 3; ++i) props->set(names[i], values[i])`) become straight-line code

    def __init__(self, deep=False):
        self.deep = deep
        self.assumed_nonnull = []

    def want_inline(self, ex, callee, node):
        if callee.get("record") in STREAM_RECORDS + ("CIstream", "COstream", "StdIstream", "StdOstream",
                                                     PROPS_RECORD, "MapTextModeProperties", "TfheGarbageCollector"):
            return False
        rets_props = PROPS_RECORD in callee.ret
        takes_props = any(PROPS_RECORD in p["t"] for p in callee.params)
        if rets_props or takes_props:
            # section primitives -- but a file-local helper of the reader / writer layer that passes a section on (fills in common
            # properties, prints and releases it) is part of its caller
            return bool(callee.get("static")) and not callee.get("record") and callee.file == ex.fn.file and \
                not callee.file.endswith("tfhe_generic_streams.cpp") and ex.depth < 6
        if has_stream_param(callee):
            return True
        if self.deep and callee.file.startswith(("libtfhe/", "include/")):
            return True
        return False

    def decide(self, ex, cond):
        c = sym.const_value(cond)
        if c is not None:
            return bool(c)
        if cond[0] == "op" and cond[1] in ("==", "!=") and (cond[3] == ZERO or cond[2] == ZERO):
            x = cond[2] if cond[3] == ZERO else cond[3]
            if x[0] in ("fld", "obj", "new", "addr"):
                # a pointer read from an existing object / a fresh object: non-null by construction
                self.assumed_nonnull.append(sym.show(x))
                return cond[1] == "!="
        return None

    def call_value(self, ex, node, name, args, this=None):
        if node.get("record") == PROPS_RECORD or name.startswith(PROPS_RECORD + "::"):
            m = node.get("method") or name.split("::")[-1]
            if m == "getTypeTitle":
                return ("title", this)
            if m.startswith("getProperty"):
                kind = m[len("getProperty"):].lstrip("_") or "string"
                key = args[0][1] if args and args[0] is not None and args[0][0] == "str" else sym.show(args[0])
                return ("prop", this, key, kind)
        if name.endswith("::compare") and name.startswith("std::basic_string") and len(args) == 1 and args[0] is not None and this is not None:
            # title.compare("S") is non-zero exactly when the title differs from "S": the value of  title != "S"
            tt = next((st for st in sym.subterms(this) if st[0] == "title"), None)
            if tt is not None and args[0][0] == "str":
                return ("call", "operator!=", (tt, args[0]))
        return None


def _method(eff):
    return eff["name"].split("::")[-1]


ELEM_BYTES = {"int": 4, "int32_t": 4, "Torus32": 4, "unsigned int": 4, "uint32_t": 4, "double": 8, "long": 8, "unsigned long": 8,
              "int64_t": 8, "uint64_t": 8, "char": 1, "unsigned char": 1}


def _staging_root(t):
    """(buffer root, element size) when t points into a buffer allocated by the function itself with new T[n]"""
    while t[0] == "cast":
        t = t[2]
    base, off = sym.ptr_split(t)
    if base[0] == "new" and base[1] in ELEM_BYTES:
        return base, off, ELEM_BYTES[base[1]]
    return None


def _staging_fill(x):
    """for (p = 0; p < n; p++) buf[p] = src[p]  with buf a private staging buffer: the segment (0, n * element size, src)"""
    body = [y for y in x["body"] if y["e"] not in ("local",)]
    if len(body) != 1 or body[0]["e"] != "store" or body[0]["op"] != "=" or x.get("lo") != ZERO or x.get("cmp") != "<" or \
            sym.const_value(x.get("step")) != 1:
        return None
    st = body[0]
    var = x["var"]
    if st["lv"][0] != "idx" or st["lv"][2] != var:
        return None
    sr = _staging_root(sym.addr(sym.idx(st["lv"][1], ZERO)))
    val = st["val"]
    while val[0] == "cast":
        val = val[2]
    if sr is None or sr[1] != ZERO or val[0] != "idx" or val[2] != var or sym.contains(val[1], var):
        return None
    return sr[0], (ZERO, sym.mul(x["hi"], I(sr[2])), val[1])


def _staged_writes(staged, ptr, size, line):
    """A write of a private staging buffer is the write of what was copied into it: the segments copied into the buffer since
    its last use (memcpy blocks and single elements) must tile [0, size); they are emitted in buffer order."""
    sr = _staging_root(ptr)
    if sr is None or sr[1] != ZERO or sr[0] not in staged:
        return None
    segs = staged.pop(sr[0])
    pos = ZERO
    out = []
    left = list(segs)
    while left:
        nxt = next((sg for sg in left if sg[0] == pos), None)
        if nxt is None:
            return None
        left.remove(nxt)
        out.append({"op": "bin", "dir": "w", "ptr": nxt[2], "size": nxt[1], "l": line, "staged": True})
        pos = sym.add(pos, nxt[1])
    if pos != size:
        return None
    return out


def extract_ops(effects, direction, unstage=False, _shared=None):
    """effect tree -> op tree.  unstage (reader views): statements that copy out of a heap / local buffer (`lv = buf[e]`,
    memcpy(dst, buf + e, n)) become pseudo-ops {"op": "unstage"}; the consumer pairs them with the read that filled the buffer."""
    ops = []
    # (a section object / staging buffer handed to an inlined helper is the caller's: one table for the whole function)
    sections, staged = _shared if _shared is not None else ({}, {})
    # sections: props object term -> op dict;  staged: private staging buffer -> [(byte offset, byte length, source pointer)]
    for x in effects:
        e = x["e"]
        if unstage and e == "store" and x["op"] == "=" and isinstance(x.get("val"), tuple):
            val = x["val"]
            while val[0] == "cast":
                val = val[2]
            if val[0] == "idx":
                sr = _staging_root(sym.addr(val))
                if sr is not None:
                    ops.append({"op": "unstage", "dst": sym.addr(x["lv"]), "src": sym.addr(val), "size": I(sr[2]), "es": sr[2], "l": x["l"]})
                    continue
        if unstage and e == "call" and x["name"] in ("memcpy", "std::memcpy", "memmove") and len(x["args"]) == 3 and x["args"][1] is not None:
            src = x["args"][1]
            while src[0] == "cast":
                src = src[2]
            sr = _staging_root(src)
            if sr is not None and x["args"][0] is not None:
                dst = x["args"][0]
                while dst[0] == "cast":
                    dst = dst[2]
                ops.append({"op": "unstage", "dst": dst, "src": src, "size": x["args"][2], "es": sr[2], "l": x["l"]})
                continue
        if e == "call" and x["name"] in ("memcpy", "std::memcpy", "memmove") and len(x["args"]) == 3 and x["args"][0] is not None:
            sr = _staging_root(x["args"][0])
            if sr is not None:
                src = x["args"][1]
                while src[0] == "cast":
                    src = src[2]
                staged.setdefault(sr[0], []).append((sym.mul(sr[1], I(sr[2])), x["args"][2], src))
                continue
        if e == "store" and x["op"] == "=" and x["lv"][0] == "idx":
            sr = _staging_root(sym.addr(x["lv"]))
            if sr is not None:
                val = x["val"]
                while val[0] == "cast":
                    val = val[2]
                staged.setdefault(sr[0], []).append((sym.mul(sr[1], I(sr[2])), I(sr[2]), sym.addr(val) if val[0] in ("fld", "idx") else ("value", val)))
                continue
        if e == "call":
            rec = x["name"].rsplit("::", 1)[0] if "::" in x["name"] else ""
            m = _method(x)
            if rec in STREAM_RECORDS and m in ("fwrite", "fread") and len(x["args"]) == 2:
                sw = _staged_writes(staged, x["args"][0], x["args"][1], x["l"]) if m == "fwrite" else None
                if sw is not None:
                    ops.extend(sw)
                    continue
                ops.append({"op": "bin", "dir": "w" if m == "fwrite" else "r", "ptr": x["args"][0],
                            "size": x["args"][1], "l": x["l"], "eff_id": id(x)})
            elif rec in STREAM_RECORDS and x.get("kind") != "construct" and not m.startswith("~"):
                ops.append({"op": "raw", "method": m, "args": x["args"], "l": x["l"]})
            elif rec == PROPS_RECORD:
                sec = sections.setdefault(x["this"], {"op": "text", "dir": None, "title": None, "props": [],
                                                      "l": x["l"], "id": x["this"], "emitted": False})
                if m == "setTypeTitle":
                    sec["title"] = x["args"][0][1] if x["args"][0][0] == "str" else sym.show(x["args"][0])
                elif m.startswith("setProperty"):
                    kind = m[len("setProperty"):].lstrip("_") or "string"
                    key = x["args"][0][1] if x["args"][0][0] == "str" else sym.show(x["args"][0])
                    sec["props"].append((key, kind, x["args"][1], x["l"]))
            elif PROPS_RECORD in (x.get("ret") or ("",))[0:1] or x["name"].startswith("new_" + PROPS_RECORD) or \
                    x["name"].startswith("print_" + PROPS_RECORD):
                pass
            # section primitives, recognised by signature
            fnusr = x.get("usr")
            if x["name"].startswith("print_TextModeProperties") or _sig_is_print(x):
                obj = x["args"][1] if len(x["args"]) > 1 else None
                sec = sections.get(obj)
                if sec is None:
                    sec = {"op": "text", "dir": "w", "title": None, "props": [], "l": x["l"], "id": obj}
                sec["dir"] = "w"
                sec["l"] = x["l"]
                ops.append(sec)
            elif _sig_is_parse(x):
                obj = x["ret"]
                sec = {"op": "text", "dir": "r", "title": None, "props": [], "l": x["l"], "id": obj,
                       "title_checked": None}
                sections[obj] = sec
                ops.append(sec)
        elif e == "inlined":
            sub = extract_ops(x["body"], direction, unstage, _shared=(sections, staged))
            ops.extend(sub)
        elif e == "loop" and not unstage and _staging_fill(x) is not None:
            sr, seg = _staging_fill(x)
            staged.setdefault(sr, []).append(seg)
        elif e == "loop":
            sub = extract_ops(x["body"], direction, unstage)
            if sub:
                ops.append({"op": "rep", "var": x["var"], "lo": x["lo"], "cmp": x["cmp"], "hi": x["hi"],
                            "step": x["step"], "body": sub, "l": x["l"]})
        elif e == "while":
            sub = extract_ops(x["body"], direction, unstage)
            if sub:
                ops.append({"op": "while", "cond": x["cond"], "body": sub, "l": x["l"]})
        elif e == "if":
            th = extract_ops(x["then"], direction, unstage)
            el = extract_ops(x["else"], direction, unstage)
            if th or el:
                ops.append({"op": "if", "cond": x["cond"], "then": th, "else": el, "l": x["l"]})
    return ops


def _sig_is_print(x):
    # (Ostream, TextModeProperties*) -> void
    return x.get("kind") == "call" and x["name"] == "print_TextModeProperties_toOStream"


def _sig_is_parse(x):
    return x.get("kind") == "call" and x["name"] == "new_TextModeProperties_fromIstream"


# The two section primitives are located by *signature* on every run (see find_primitives); the
# names above are then verified against what was found, so a rename breaks the analysis (exit 2)
# rather than silently matching nothing.
def find_primitives(v):
    printers, parsers = [], []
    for f in v.decls.values():
        if f.get("record"):
            continue
        pt = [p["t"] for p in f.params]
        if len(pt) == 2 and "Ostream" in pt[0] and PROPS_RECORD in pt[1] and f.ret == "void":
            printers.append(f.q)
        if len(pt) == 1 and "Istream" in pt[0] and PROPS_RECORD in f.ret:
            parsers.append(f.q)
    if printers != ["print_TextModeProperties_toOStream"] or parsers != ["new_TextModeProperties_fromIstream"]:
        raise AnalysisBroken("text-section primitives not as expected: printers=%s parsers=%s" % (printers, parsers))
    return printers[0], parsers[0]


def attach_reader_details(effects, ops):
    """fill title checks and property reads of reader sections from the effect tree"""
    secs = {}
    for o in flat_ops(ops):
        if o["op"] == "text" and o["dir"] == "r":
            secs[o["id"]] = o
    for x in flat(effects):
        if x["e"] == "if":
            t = _title_check(x["cond"])
            if t and t[0] in secs:
                obj, s, neq = t
                exits = (x.get("then_status") == "exit") if neq else (x.get("else_status") == "exit")
                secs[obj]["title_checked"] = s if exits else None
                secs[obj]["title_check_line"] = x["l"]
                secs[obj]["title"] = s
    # property reads: find ("prop", obj, key, kind) terms anywhere in the effects
    for x in flat(effects):
        for key in ("val", "ret", "cond"):
            t = x.get(key)
            if isinstance(t, tuple):
                _collect_props(t, secs)
        for a in x.get("args") or []:
            if isinstance(a, tuple):
                _collect_props(a, secs)
    return secs


def _collect_props(t, secs):
    if not isinstance(t, tuple) or not t:
        return
    if t[0] == "prop":
        sec = secs.get(t[1])
        if sec is not None and (t[2], t[3]) not in [(k, kd) for k, kd in sec["props"]]:
            sec["props"].append((t[2], t[3]))
        return
    if t[0] == "poly":
        for m, _ in t[1]:
            for a in m:
                _collect_props(a, secs)
        return
    for a in t[1:]:
        if isinstance(a, tuple):
            if a and isinstance(a[0], str):
                _collect_props(a, secs)
            else:
                for b in a:
                    _collect_props(b, secs)


def _title_check(cond):
    """cond -> (props obj, string, is_not_equal) for  title != "S"  /  title == "S" """
    if cond[0] == "call" and ("operator!=" in cond[1] or "operator==" in cond[1]) and len(cond[2]) == 2:
        a, b = cond[2]
        if a[0] == "title" and b[0] == "str":
            return a[1], b[1], "!=" in cond[1]
        if b[0] == "title" and a[0] == "str":
            return b[1], a[1], "!=" in cond[1]
    if cond[0] == "op" and cond[1] == "||":
        # (A || title != "S"): the branch is taken whenever the title differs
        for side in (cond[2], cond[3]):
            r = _title_check(side)
            if r and r[2]:
                return r
    if cond[0] == "un" and cond[1] == "!":
        r = _title_check(cond[2])
        if r:
            return r[0], r[1], not r[2]
    if cond[0] == "op" and cond[1] in ("!=", "==") and cond[3] == ZERO:
        r = _title_check(cond[2])
        if r:
            return (r[0], r[1], r[2]) if cond[1] == "!=" else (r[0], r[1], not r[2])
    return None


def flat_ops(ops):
    for o in ops:
        yield o
        if o["op"] in ("rep", "while"):
            yield from flat_ops(o["body"])
        elif o["op"] == "if":
            yield from flat_ops(o["then"])
            yield from flat_ops(o["else"])


def ops_of(v, fname, args=None, deep=False):
    fn = v.fn(fname)
    hooks = IOHooks(deep=deep)
    eff, st, ex = run_function(v, fn, args=args, hooks=hooks)
    direction = "w"
    ops = extract_ops(eff, direction)
    attach_reader_details(eff, ops)
    return ops, eff, hooks


def show_op(o, ren=None):
    s = lambda t: sym.show(sym.subst(t, ren) if ren else t)
    if o["op"] == "bin":
        return "%s(%s, %s)" % ("fwrite" if o["dir"] == "w" else "fread", s(o["ptr"]), s(o["size"]))
    if o["op"] == "text":
        if o["dir"] == "w":
            return "section[%s]{%s}" % (o["title"], ", ".join("%s:%s=%s" % (k, kd, s(val)) for k, kd, val, _ in o["props"]))
        return "section?[%s]{%s}" % (o.get("title_checked"), ", ".join("%s:%s" % (k, kd) for k, kd in o["props"]))
    if o["op"] == "rep":
        return "for %s in [%s %s %s) { %s }" % (sym.show(o["var"]), s(o["lo"]), o["cmp"], s(o["hi"]),
                                                "; ".join(show_op(b, ren) for b in o["body"]))
    if o["op"] == "if":
        return "if %s { %s } else { %s }" % (s(o["cond"]), "; ".join(show_op(b, ren) for b in o["then"]),
                                             "; ".join(show_op(b, ren) for b in o["else"]))
    if o["op"] == "while":
        return "while %s { %s }" % (s(o["cond"]), "; ".join(show_op(b, ren) for b in o["body"]))
    return o["op"]


def canon_op(o, ren, loopren=None):
    """hashable canonical form of an op under a renaming of roots (and loop variables by depth)"""
    loopren = dict(loopren or {})
    def s(t):
        m = dict(ren or {})
        m.update(loopren)
        return sym.subst(t, m)
    if o["op"] == "bin":
        return ("bin", o["dir"], s(o["ptr"]), s(o["size"]))
    if o["op"] == "text":
        if o["dir"] == "w":
            return ("text", o["title"], tuple(sorted((k, kd, s(val)) for k, kd, val, _ in o["props"])))
        return ("textr", o.get("title_checked"), tuple(sorted(o["props"])))
    if o["op"] == "rep":
        depth = len(loopren)
        loopren[o["var"]] = sym.sym("$i%d" % depth)
        return ("rep", s(o["lo"]), o["cmp"], s(o["hi"]), s(o["step"]),
                tuple(canon_op(b, ren, loopren) for b in o["body"]))
    if o["op"] == "if":
        return ("if", s(o["cond"]), tuple(canon_op(b, ren, loopren) for b in o["then"]),
                tuple(canon_op(b, ren, loopren) for b in o["else"]))
    if o["op"] == "while":
        return ("while", s(o["cond"]), tuple(canon_op(b, ren, loopren) for b in o["body"]))
    return (o["op"],)


def normalize_serials(struct):
    """renumber the allocation serials of ("obj",name,args,n) / ("new",type,size,n) terms by first appearance"""
    ren = {}

    def go(t):
        if isinstance(t, tuple):
            if len(t) == 4 and t and t[0] in ("obj", "new") and isinstance(t[3], int):
                if t[3] not in ren:
                    ren[t[3]] = len(ren) + 1
                return (t[0], t[1], go(t[2]), ren[t[3]])
            return tuple(go(x) for x in t)
        if isinstance(t, list):
            return [go(x) for x in t]
        return t

    def resort(t):
        """the factor order inside a monomial follows the terms' keys, which contain the serials: re-normalise after renumbering"""
        if isinstance(t, tuple):
            if t and t[0] == "poly":
                r = ZERO
                for m, c in t[1]:
                    prod = ("int", c)
                    for x in m:
                        prod = sym.mul(prod, resort(x))
                    r = sym.add(r, prod)
                return r
            return tuple(resort(x) for x in t)
        if isinstance(t, list):
            return [resort(x) for x in t]
        return t
    return resort(go(struct))


def total_size(ops):
    """symbolic byte count of the binary ops (text sections counted separately); None if not summable"""
    total = ZERO
    ntext = 0
    for o in ops:
        if o["op"] == "bin":
            total = sym.add(total, o["size"])
        elif o["op"] == "text":
            ntext += 1
        elif o["op"] == "rep":
            sub = total_size(o["body"])
            if sub is None or o["cmp"] not in ("<", "<=") or o["step"] != I(1):
                return None
            inner, nt = sub
            trips = sym.sub(o["hi"], o["lo"])
            if o["cmp"] == "<=":
                trips = sym.add(trips, I(1))
            if sym.contains(inner, o["var"]):
                return None
            total = sym.add(total, sym.mul(trips, inner))
            if nt:
                return None
        else:
            return None
    return total, ntext


# ----------------------------------------------------------------------------- C17 R3/R4
def ctor_field_aliases(v, record):
    """fields of `record` (possibly nested) that the constructor initialises from the same argument:
    returns mapping lvalue-term -> representative lvalue-term, with `this` as root sym('this')"""
    ctors = [f for f in v.defined() if f.get("record") == record and f.get("kind") == "ctor"
             and not f.get("implicit") and not f.get("deleted")]
    if len(ctors) != 1:
        raise AnalysisBroken("expected exactly one user constructor for %s, found %d" % (record, len(ctors)))
    class H(Hooks):
        def want_inline(self, ex, callee, node):
            return callee.get("kind") == "ctor" and callee.file.startswith(("libtfhe/", "include/"))
    eff, st, ex = run_function(v, ctors[0], hooks=H())
    groups = {}
    for x in flat(eff):
        if x["e"] == "store" and x["op"] == "=":
            r = sym.root_of(x["lv"])
            if r == sym.sym("this"):
                groups.setdefault(x["val"], []).append(x["lv"])
    alias = {}
    for val, lvs in groups.items():
        if val[0] != "sym":
            continue
        rep = sorted(lvs, key=lambda t: len(repr(t)))[0]
        for lv in lvs:
            alias[lv] = rep
    return alias, ctors[0]


def check_c17_sequences(chk, v, cloud_exports, secret_exports):
    find_primitives(v)
    vn = v.name
    K = sym.sym("$key")
    seqs = {}
    for name in cloud_exports + secret_exports:
        f = v.fn(name)
        # bind the object parameter (the non-stream one) to $key
        args = [None if any(t in p["t"] for t in ("FILE", "ostream", "istream")) else K for p in f.params]
        ops, eff, hooks = ops_of(v, name, args=args)
        if not ops:
            chk.broken("no I/O ops extracted from %s" % name)
        for o in flat_ops(ops):
            if o["op"] in ("while", "raw"):
                chk.broken("unrecognised I/O shape in %s at line %s" % (name, o["l"]))
        seqs[name] = ops
        chk.count("R3.export_sequences")
    alias, ctor = ctor_field_aliases(v, "TFheGateBootstrappingSecretKeySet")
    # express the cloud sequence as seen from a secret set: $key -> &($key->cloud)
    this_to_key = {sym.sym("this"): K}
    alias_k = {sym.subst(a, this_to_key): sym.subst(b, this_to_key) for a, b in alias.items()}
    cloud_in_secret = {K: sym.addr(sym.fld(sym.idx(K, ZERO), "cloud"))}

    def canon_seq(ops, ren):
        out = []
        for o in ops:
            c = canon_op(o, ren)
            c = _rewrite(c, alias_k)
            out.append(c)
        return out

    for cexp, sexp in zip(cloud_exports, secret_exports):
        cseq = canon_seq(seqs[cexp], cloud_in_secret)
        sseq = canon_seq(seqs[sexp], {})
        where = v.fn(sexp).where
        is_prefix = len(sseq) > len(cseq) and sseq[:len(cseq)] == cseq
        if is_prefix:
            chk.proved("R3", "%s sequence is a strict prefix of %s" % (cexp, sexp), where=where,
                       detail="%d cloud ops == first %d of %d secret ops (constructor aliases used: %s)" % (
                           len(cseq), len(cseq), len(sseq),
                           "; ".join("%s==%s" % (sym.show(a), sym.show(b)) for a, b in alias_k.items() if a != b)),
                       variant=vn)
        else:
            i = next((i for i, (a, b) in enumerate(zip(cseq, sseq)) if a != b), min(len(cseq), len(sseq)))
            chk.refuted("R3", "%s sequence is a strict prefix of %s" % (cexp, sexp), where=where,
                        detail="first difference at op %d: cloud=%s secret=%s" % (
                            i, show_op(seqs[cexp][i]) if i < len(cseq) else "<end>",
                            show_op(seqs[sexp][i]) if i < len(sseq) else "<end>"), variant=vn)
        # the tail of the secret sequence is made of ops over secret records only (key contents)
        tail = seqs[sexp][len(cseq):]
        chk.require(len(tail) >= 1, "R3", "%s has a non-empty secret tail" % sexp, where=where,
                    ok="; ".join(show_op(o) for o in tail)[:300], bad="no tail", variant=vn, nontrivial=False)
    # R2 (field level): every pointer written by the cloud export is rooted at $key and passes through
    # public records only; R4: total size is a polynomial in immutable dimension fields only
    immut = immutable_int_fields(v)
    for cexp in cloud_exports:
        ops = seqs[cexp]
        where = v.fn(cexp).where
        nbin = 0
        for o in flat_ops(ops):
            if o["op"] != "bin":
                continue
            nbin += 1
            r = sym.root_of(o["ptr"])
            okroot = r == K or (r is not None and r[0] in ("glob", "var"))
            chk.require(okroot, "R2", "%s: written pointer %s is rooted at the cloud key, a tag constant or a local" % (
                cexp, sym.show(o["ptr"])), where="libtfhe/tfhe_io.cpp:%s" % o["l"], ok="root %s" % (sym.show(r) if r else r),
                bad="root %s" % (r,), variant=vn)
        chk.count("R2.cloud_bin_ops", nbin)
        ts = total_size(ops)
        if ts is None:
            chk.assumed("R4", "%s: byte count is summable" % cexp, where=where,
                        detail="op tree contains a shape whose size is not a closed form", variant=vn)
            continue
        total, ntext = ts
        bad_atoms = []
        roots = {K: "TFheGateBootstrappingCloudKeySet *"}
        top = set()
        for m, _c in sym.poly_items(total):
            top.update(m)
        for a in top:
            if a[0] == "fld":
                rec = record_of_field(v, a, roots)
                if rec is None or (rec, a[2]) not in immut:
                    bad_atoms.append("%s (%s::%s)" % (sym.show(a), rec, a[2]))
            else:
                bad_atoms.append(sym.show(a))
        chk.require(not bad_atoms, "R4", "%s: binary size depends on construction-time dimensions only" % cexp,
                    where=where, ok="%d text sections + %s bytes" % (ntext, sym.show(total)),
                    bad="size depends on mutable/unknown: %s" % bad_atoms, variant=vn)


def _rewrite(c, alias):
    if isinstance(c, tuple):
        if c and isinstance(c[0], str) and c[0] in ("fld", "idx", "addr", "poly", "op", "sym", "int"):
            return sym.subst(c, alias)
        return tuple(_rewrite(x, alias) for x in c)
    return c


def _record_in_type(v, t):
    import re
    for tok in re.findall(r"[A-Za-z_][A-Za-z_0-9:]*", t or ""):
        if tok in v.records:
            return tok
    return None


def type_of(v, term, roots):
    """C type string of an lvalue/pointer term by walking record field types from typed roots"""
    if term in roots:
        return roots[term]
    k = term[0]
    if k == "idx":
        t = type_of(v, term[1], roots)
        if t is None:
            return None
        t = t.strip()
        import re
        t = re.sub(r"(\s*\b(const|volatile))+\s*$", "", t).strip()
        if t.endswith("*"):
            return t[:-1].strip()
        if t.endswith("]"):
            return t[:t.rindex("[")].strip()
        return None
    if k == "fld":
        t = type_of(v, term[1], roots)
        rec = _record_in_type(v, t)
        if rec is None:
            return None
        for f in v.records[rec]["fields"]:
            if f["n"] == term[2]:
                return f["t"]
        return None
    if k == "addr":
        t = type_of(v, term[1], roots)
        return t + " *" if t else None
    return None


def record_of_field(v, fldterm, roots):
    return _record_in_type(v, type_of(v, fldterm[1], roots))


def immutable_int_fields(v):
    """(record, field) of integer fields that are assigned only inside constructors of their record"""
    written_outside = set()
    all_int = set()
    for r in v.records.values():
        for f in r["fields"]:
            if f["t"].replace("const ", "").strip() in ("int", "unsigned int", "long", "unsigned long"):
                all_int.add((r["name"], f["n"]))
    for fn in v.defined():
        for n in walk(fn.d.get("body")):
            tgt = None
            if n.get("k") == "assign":
                tgt = n.get("a")
            elif n.get("k") == "un" and n.get("op") in ("++", "--"):
                tgt = n.get("a")
            if isinstance(tgt, dict) and tgt.get("k") == "member":
                if fn.get("kind") == "ctor" and fn.get("record") == tgt.get("record"):
                    continue
                written_outside.add((tgt.get("record"), tgt["field"]))
    return all_int - written_outside


def mismatch_is_fatal(seq, i):
    """seq = list(flat(effects)), seq[i] an `if` comparing a value read from the stream with what is expected (== or !=).
    True when the path taken on a mismatch ends the process: the mismatch branch exits, or the match branch leaves (return)
    and the statements that follow the test run straight into a no-return call."""
    x = seq[i]
    c = x["cond"]
    if c[0] != "op" or c[1] not in ("==", "!="):
        return False
    mis_status = x.get("then_status") if c[1] == "!=" else x.get("else_status")
    match_status = x.get("else_status") if c[1] == "!=" else x.get("then_status")
    if mis_status == "exit":
        return True
    if mis_status == "fall" and match_status in ("return", "continue", "break"):
        nested = len(list(flat(x["then"]))) + len(list(flat(x["else"])))
        for y in seq[i + 1 + nested:]:
            if y["e"] == "exit":
                return True
            if y["e"] == "call" and y.get("noreturn"):
                continue
            if y["e"] in ("local",):
                continue
            return False
    return False
