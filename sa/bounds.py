"""A6 — extents and bounds: for every array allocated in a function, every subscript reaching it
(directly, or through a callee whose parameter requirement is known) satisfies
    0 <= min index   and   max index + 1 <= extent
as polynomial inequalities over symbolic dimensions (all >= 1).  Three-valued.
"""
import re

from . import sym
from .sym import I, ZERO
from .symexec import Hooks, run_function, flat
from .pairing import alloc_kind


def _shift_nonneg(t):
    """rewrite poly over atoms a>=1 as poly over a'=a-1>=0 and test that all coefficients are >= 0"""
    items = sym.poly_items(t)
    out = {}
    for mono, c in items:
        # expand prod (1 + a'_i)
        terms = {(): c}
        for a in mono:
            nt = {}
            for m, k in terms.items():
                nt[m] = nt.get(m, 0) + k
                m2 = tuple(sorted(m + (a,), key=repr))
                nt[m2] = nt.get(m2, 0) + k
            terms = nt
        for m, k in terms.items():
            out[m] = out.get(m, 0) + k
    return all(k >= 0 for k in out.values()), out


def base_atoms(t):
    """leaf symbols/fields a term is built from"""
    return {a for a in sym.atoms(t) if a[0] in ("sym", "fld", "var", "glob") and
            not any(b != a and b[0] == "fld" and sym.contains(b, a) and False for b in [])}


def _dimension_like(a):
    if a[0] == "sym":
        return True
    if a[0] == "fld":
        r = sym.root_of(a)
        t = a
        while t[0] == "fld" or (t[0] == "idx" and t[2] == ZERO):
            t = t[1]
        return r is not None and r[0] == "sym" and t == r
    return False


def _floor_div_rewrite(t):
    """x / c (c a positive constant, x a dimension) -> fresh q with x = c*q + r, r >= 0: the rewritten
    polynomial is a lower bound of t when x occurs positively, exact in q"""
    divs = [a for a in sym.atoms_top(t) if a[0] == "op" and a[1] == "/" and sym.const_value(a[3]) not in (None, 0)
            and sym.const_value(a[3]) > 0 and _dimension_like(a[2])]
    if not divs:
        return t
    m1, m2 = {}, {}
    for d in divs:
        q = ("sym", "floor(%s/%d)" % (sym.show(d[2]), d[3][1]))
        r = ("sym", "(%s mod %d)" % (sym.show(d[2]), d[3][1]))
        m1[d] = q
        m2[d[2]] = sym.add(sym.mul(I(d[3][1]), q), r)
    return sym.subst(sym.subst(t, m1), m2)


def decide_nonneg(t):
    """'proved' | 'refuted' | 'unknown', explanation"""
    t0 = t
    t = _floor_div_rewrite(t)
    if t != t0:
        # x = c*q + r with q >= 0, 0 <= r, and x >= 1: split on q = 0 (then r >= 1) / q >= 1
        qs = sorted({a for a in sym.atoms_top(t) if a[0] == "sym" and a[1].startswith("floor(")} |
                    {a for m, _ in sym.poly_items(t) for a in m if a[0] == "sym" and a[1].startswith("floor(")}, key=repr)
        def nonneg_coeffs(u):
            items = sym.poly_items(u)
            return all(k >= 0 for _, k in items) and all(all(a[0] == "sym" for a in m) for m, _ in items)
        def cases(u, rest):
            if not rest:
                return nonneg_coeffs(u)
            q = rest[0]
            r = ("sym", q[1].replace("floor(", "(").replace("/", " mod ", 1))
            u_pos = sym.subst(u, {q: sym.add(I(1), ("sym", q[1] + "'"))})
            u_zero = sym.subst(sym.subst(u, {q: ZERO}), {r: sym.add(I(1), ("sym", r[1] + "'"))})
            return cases(u_pos, rest[1:]) and cases(u_zero, rest[1:])
        if len(qs) <= 3 and cases(t, qs):
            return "proved", "with x = c*floor(x/c) + (x mod c), x >= 1: non-negative in every case (%s)" % sym.show(t)
        t = t0
    c = sym.const_value(t)
    if c is not None:
        return ("proved", "constant %d >= 0" % c) if c >= 0 else ("refuted", "constant %d < 0" % c)
    monos = sym.poly_items(t)
    top = set()
    for m, _ in monos:
        top.update(m)
    if not all(_dimension_like(a) for a in top):
        return "unknown", "involves non-dimension terms: %s" % [sym.show(a) for a in top if not _dimension_like(a)][:3]
    ok, _ = _shift_nonneg(t)
    if ok:
        return "proved", "all coefficients non-negative after substituting every dimension d = 1 + d'"
    # refutation: a negative monomial whose atoms are unrelated to the atoms of every positive monomial
    neg = [(m, k) for m, k in monos if k < 0 and m]
    pos_atoms = set()
    for m, k in monos:
        if k > 0:
            pos_atoms.update(m)
    for m, k in neg:
        free = [a for a in m if a not in pos_atoms and not any(sym.contains(p, a) or sym.contains(a, p) for p in pos_atoms)]
        if free:
            a = free[0]
            return "refuted", "dimension %s is unrelated to %s: choose %s larger than the other side" % (
                sym.show(a), [sym.show(p) for p in pos_atoms][:3] or "the constant", sym.show(a))
    return "unknown", "sign of %s not decided" % sym.show(t)


def index_range(index, loops):
    """(min, max) of an index term over the enclosing loop ranges, or None if not affine"""
    lo, hi = index, index
    for lp in reversed(loops):
        v = lp["var"]
        for which in ("lo", "hi"):
            t = lo if which == "lo" else hi
            if not sym.contains(t, v):
                continue
            lin = sym.linear_in(t, v)
            if lin is None:
                return None
            a, b = lin
            ca = sym.const_value(a)
            if ca is None:
                # symbolic non-negative coefficient (dimension products): treat as positive
                st, _ = decide_nonneg(a)
                if st != "proved":
                    return None
                ca = 1
            step = sym.const_value(lp["step"])
            if step is None:
                return None
            if step > 0:
                vmin = lp["lo"]
                vmax = sym.sub(lp["hi"], I(1)) if lp["cmp"] == "<" else lp["hi"] if lp["cmp"] == "<=" else None
            else:
                vmax = lp["lo"]
                vmin = sym.add(lp["hi"], I(1)) if lp["cmp"] == ">" else lp["hi"] if lp["cmp"] == ">=" else None
            if vmin is None or vmax is None:
                return None
            pick = (vmin if (ca > 0) == (which == "lo") else vmax)
            nt = sym.subst(t, {v: pick})
            if which == "lo":
                lo = nt
            else:
                hi = nt
    return lo, hi


def _idx_terms(t, acc):
    if not isinstance(t, tuple) or not t:
        return acc
    if not isinstance(t[0], str):
        for y in t:
            _idx_terms(y, acc)
        return acc
    if t[0] == "addr" and t[1][0] == "idx":
        # &a[i] computes an address, it does not access a[i] (one past the end is a valid pointer); the subscripts
        # inside the base and the index expression are still accesses
        _idx_terms(t[1][1], acc)
        _idx_terms(t[1][2], acc)
        return acc
    if t[0] == "idx":
        acc.append(t)
    if t[0] == "poly":
        for m, _ in t[1]:
            for y in m:
                _idx_terms(y, acc)
        return acc
    for y in t[1:]:
        if isinstance(y, tuple):
            _idx_terms(y, acc)
    return acc


def _unscale(it):
    """idx((T*)p, i) with p a byte pointer -> (idx(p, s*i), s): subscript in the units of p"""
    from .symexec import pointee_size
    base = it[1]
    if base[0] == "cast":
        s = pointee_size(base[1])
        inner = base[2]
        off = ZERO
        if inner[0] == "addr" and inner[1][0] == "idx":
            inner, off = inner[1][1], inner[1][2]
        if s is not None:
            return ("idx", inner, sym.add(off, sym.mul(I(s), it[2]))), s
    return it, 1


def accesses(effs, loops=None, guards=None):
    """yield (idx term, loops, guards, line, kind) for every subscript in the effect tree"""
    loops = loops or []
    guards = guards or []
    for x in effs:
        e = x["e"]
        terms = []
        if e == "store":
            terms = [(x["lv"], "store"), (x["val"], "read")]
        elif e == "call":
            terms = [(a, "arg") for a in x["args"] if a is not None] + ([(x["this"], "arg")] if x.get("this") is not None else [])
        elif e == "local":
            terms = [(x["val"], "read")]
        elif e == "if":
            terms = [(x["cond"], "read")]
        elif e == "return" and x.get("val") is not None:
            terms = [(x["val"], "read")]
        for t, kind in terms:
            for it in _idx_terms(t, []):
                it2, width = _unscale(it)
                if width != 1:
                    # the access covers [s*i, s*i + s): report its last byte
                    it2 = ("idx", it2[1], sym.add(it2[2], I(width - 1))) if kind != "arg" else it2
                yield it2, list(loops), list(guards), x["l"], kind
        if e == "loop":
            yield from accesses(x["body"], loops + [x], guards)
        elif e == "while":
            yield from accesses(x["body"], loops + [{"var": ("unk", "while"), "lo": ZERO, "hi": ZERO, "cmp": "?", "step": I(1)}], guards)
        elif e == "if":
            yield from accesses(x["then"], loops, guards + [x["cond"]])
            yield from accesses(x["else"], loops, guards + [sym.unop("!", x["cond"])])


def walk_eff(effs, loops=None, guards=None):
    """(effect, enclosing canonical loops, guards) in program order"""
    loops = loops or []
    guards = guards or []
    for x in effs:
        yield x, loops, guards
        e = x["e"]
        if e == "loop":
            yield from walk_eff(x["body"], loops + [x], guards)
            if x.get("latch"):
                yield from walk_eff(x["latch"], loops + [x], guards)
        elif e == "while":
            yield from walk_eff(x["body"], loops + [{"var": ("unk", "while"), "lo": ZERO, "hi": ZERO, "cmp": "?", "step": I(1)}], guards)
        elif e == "if":
            yield from walk_eff(x["then"], loops, guards + [x["cond"]])
            yield from walk_eff(x["else"], loops, guards + [sym.unop("!", x["cond"])])


def split_base_offset(a):
    """pointer argument -> (base pointer term, element offset term)"""
    if a is None:
        return None, None
    if a[0] == "addr" and a[1][0] == "idx":
        return a[1][1], a[1][2]
    return a, ZERO


def dim_field_alias(v):
    """(record, field) -> (parameter record, field) for dimension fields a constructor copies from a parameter object it is given
    (`TLweSample::k` initialised with `params->k`): the object's own copy of that dimension"""
    tab = getattr(v, "_dim_field_alias", None)
    if tab is not None:
        return tab
    tab = {}
    for c in v.defined():
        if c.get("kind") != "ctor" or c.get("implicit") or c.get("copy") or not c.get("record"):
            continue
        for ini in c.d.get("inits") or []:
            e = ini.get("e")
            while isinstance(e, dict) and e.get("k") in ("cast", "paren"):
                e = e.get("a")
            if ini.get("field") and isinstance(e, dict) and e.get("k") == "member" and e.get("record") and isinstance(e.get("a"), dict) \
                    and e["a"].get("k") == "ref" and e["a"].get("rk") == "param" and "int" in (e.get("t") or ""):
                tab[(c.get("record"), ini["field"])] = (e["record"], e["field"])
    v._dim_field_alias = tab
    return tab


# ------------------------------------------------------------------------------ constructor relations
def ctor_relations(v):
    """(record, field) -> expression over this-> fields, read from the single user constructor"""
    from .pairing import owned_fields
    from .ioseq import immutable_int_fields
    immutable = immutable_int_fields(v)
    rel = {}
    for rname, rec in v.records.items():
        ctors = [f for f in v.defined() if f.get("record") == rname and f.get("kind") == "ctor" and not f.get("implicit")
                 and not f.get("defaulted") and not f.get("deleted") and not f.get("copy")]
        if len(ctors) != 1:
            continue
        eff, st, ex = run_function(v, ctors[0], hooks=Hooks())
        this = sym.sym("this")
        p2f = {}
        stores = []
        for x in flat(eff):
            if x["e"] == "store" and x["op"] == "=" and sym.root_of(x["lv"]) == this and x["lv"][0] == "fld" \
                    and x["lv"][1] == sym.idx(this, ZERO):
                if isinstance(x["val"], tuple) and x["val"][0] == "sym":
                    p2f.setdefault(x["val"], x["lv"])
                stores.append(x)
        for x in stores:
            val = x["val"]
            if not isinstance(val, tuple) or val[0] in ("sym", "new", "obj", "unk", "float"):
                continue
            val2 = sym.subst(val, p2f)
            ats = sym.atoms(val2)
            if any(a[0] == "sym" and a != this for a in ats) or _has_unk(val2):
                continue
            fld_t = next((f["t"] for f in rec["fields"] if f["n"] == x["lv"][2]), "")
            if fld_t.replace("const ", "").strip() not in ("int", "unsigned int", "long", "unsigned long"):
                continue
            if (rname, x["lv"][2]) not in immutable:
                continue          # a field that is reassigned later (e.g. LweSample::b = 0) is no dimension relation
            rel[(rname, x["lv"][2])] = val2
    return rel


def apply_relations(v, t, roots, rel):
    """replace derived dimension fields by their defining expression (typed through record layouts)"""
    from .ioseq import record_of_field
    this = sym.sym("this")
    for _ in range(4):
        changed = False
        mapping = {}
        for a in sym.atoms(t):
            if a[0] == "fld":
                rec = record_of_field(v, a, roots)
                if rec and (rec, a[2]) in rel:
                    base_obj = a[1]
                    ptr = base_obj[1] if base_obj[0] == "idx" and base_obj[2] == ZERO else sym.addr(base_obj)
                    mapping[a] = sym.subst(rel[(rec, a[2])], {this: ptr})
        if mapping:
            nt = sym.rewrite(t, mapping)
            if nt != t:
                t = nt
                changed = True
        if not changed:
            break
    return t


def object_field_extents(v):
    """(record, field) -> (extent term over the constructor's parameter symbols, [ctor parameter names]) for fields that the
    single user constructor fills with a fresh array"""
    out = {}
    this0 = sym.idx(sym.sym("this"), ZERO)
    for rname in v.records:
        ctors = [f for f in v.defined() if f.get("record") == rname and f.get("kind") == "ctor" and not f.get("implicit")
                 and not f.get("defaulted") and not f.get("deleted") and not f.get("copy")]
        if len(ctors) != 1:
            continue
        eff, st, ex = run_function(v, ctors[0], hooks=Hooks())
        arrays = local_arrays(eff)
        p2f = {}
        for x in flat(eff):
            if x["e"] == "store" and x["op"] == "=" and x["lv"][0] == "fld" and x["lv"][1] == this0 and x["val"][0] == "sym":
                p2f.setdefault(x["lv"], x["val"])
        for x in flat(eff):
            if x["e"] == "store" and x["op"] == "=" and x["lv"][0] == "fld" and x["lv"][1] == this0 and x["val"] in arrays:
                ext = sym.subst(arrays[x["val"]][0], p2f)        # this->n written from param n: express over the parameters
                if not any(sym.contains(ext, this0) for _ in [0]):
                    out[(rname, x["lv"][2])] = (ext, [p["n"] for p in ctors[0].params])
    return out


def element_arrays(v):
    """(record, field) -> (count term, element record, [element constructor arguments]) for fields the constructor fills with
    new_<Elem>_array(count, args...); terms are over `this` and the constructor's parameter symbols"""
    import re as _re
    out = {}
    this0 = sym.idx(sym.sym("this"), ZERO)
    for rname in v.records:
        ctors = [f for f in v.defined() if f.get("record") == rname and f.get("kind") == "ctor" and not f.get("implicit")
                 and not f.get("defaulted") and not f.get("deleted") and not f.get("copy")]
        if len(ctors) != 1:
            continue
        eff, st, ex = run_function(v, ctors[0], hooks=Hooks())
        for x in flat(eff):
            if x["e"] == "store" and x["op"] == "=" and x["lv"][0] == "fld" and x["lv"][1] == this0 and x["val"][0] == "obj":
                m = _re.match(r"^new_(\w+)_array$", str(x["val"][1]))
                if m and m.group(1) in v.records and x["val"][2]:
                    out[(rname, x["lv"][2])] = (x["val"][2][0], m.group(1), list(x["val"][2][1:]))
    return out


def field_array_extent(v, t, roots, fext, earr, depth=0):
    """extent (in elements) of the array the pointer term t = O.G refers to, as a term over the objects it hangs off, using the
    constructors: O's record fills G with an array sized by its constructor arguments, which are either stored in fields of O
    or, when O is an element of X.F created by new_<Rec>_array(count, args), the arguments X's constructor passed"""
    from .ioseq import type_of, _record_in_type
    if depth > 4 or t is None or t[0] != "fld":
        return None
    O, G = t[1], t[2]
    rec = _record_in_type(v, type_of(v, O, roots))
    if rec is None or (rec, G) not in fext:
        return None
    ext, cparams = fext[(rec, G)]
    this = sym.sym("this")
    m = {}
    # element of an array created by the owner's constructor?
    if O[0] == "idx" and O[1][0] == "fld":
        X, F = O[1][1], O[1][2]
        xrec = _record_in_type(v, type_of(v, X, roots))
        ea = earr.get((xrec, F))
        if ea is not None and ea[1] == rec and len(ea[2]) == len(cparams):
            xptr = X[1] if X[0] == "idx" and X[2] == ZERO else sym.addr(X)
            xm = {this: xptr}
            # X's own constructor parameters: stored in fields of X
            xctor = [f for f in v.defined() if f.get("record") == xrec and f.get("kind") == "ctor" and not f.get("implicit") and not f.get("copy")]
            if len(xctor) == 1:
                eff, st, ex = run_function(v, xctor[0], hooks=Hooks())
                for x in flat(eff):
                    if x["e"] == "store" and x["op"] == "=" and x["lv"][0] == "fld" and x["lv"][1] == sym.idx(this, ZERO) and x["val"][0] == "sym":
                        xm.setdefault(x["val"], sym.fld(X, x["lv"][2]))
            if len(xctor) == 1:
                for p_ in xctor[0].params:                 # an argument X's constructor did not keep: named by the record it points to
                    r_ = _record_in_type(v, p_["t"])
                    if sym.sym(p_["n"]) not in xm:
                        xm[sym.sym(p_["n"])] = sym.sym("$" + r_) if r_ in ("TLweParams", "TGswParams") else ("unk", "ctor-arg:" + p_["n"])
            for nm, a in zip(cparams, ea[2]):
                m[sym.sym(nm)] = sym.subst(a, xm)
    if not m:
        ctor = [f for f in v.defined() if f.get("record") == rec and f.get("kind") == "ctor" and not f.get("implicit") and not f.get("copy")]
        if len(ctor) != 1:
            return None
        eff, st, ex = run_function(v, ctor[0], hooks=Hooks())
        for x in flat(eff):
            if x["e"] == "store" and x["op"] == "=" and x["lv"][0] == "fld" and x["lv"][1] == sym.idx(this, ZERO) and x["val"][0] == "sym":
                m.setdefault(x["val"], sym.fld(O, x["lv"][2]))
    optr = O[1] if O[0] == "idx" and O[2] == ZERO else sym.addr(O)
    m[this] = optr
    # a constructor argument that is not kept in the object: a pointer to a parameter object is named by its record ("$TLweParams":
    # the parameter set the object was built for, identified with the caller's by the consistency assumption of R9); anything else
    # makes the extent inexpressible here.  (The constructor's parameter NAMES must not be confused with the current function's.)
    ctor_ = [f for f in v.defined() if f.get("record") == rec and f.get("kind") == "ctor" and not f.get("implicit") and not f.get("copy")]
    ptypes = {sym.sym(p_["n"]): p_["t"] for p_ in ctor_[0].params} if len(ctor_) == 1 else {}
    for nm in cparams:
        s_ = sym.sym(nm)
        if s_ not in m:
            r_ = _record_in_type(v, ptypes.get(s_, ""))
            if r_ in ("TLweParams", "TGswParams"):
                m[s_] = sym.sym("$" + r_)
            else:
                return None
    return sym.subst(ext, m)


def local_arrays(effs):
    """obj term -> (extent term in elements, description, line)"""
    out = {}
    for x in flat(effs):
        if x["e"] == "alloc" and x["how"] == "new[]" and x.get("size") is not None:
            out[x["obj"]] = (x["size"], "new %s[%s]" % (x.get("t"), sym.show(x["size"])), x["l"])
        elif x["e"] == "localarray":
            out[x["lv"]] = (x["extent"], "%s[%s]" % (x.get("t"), sym.show(x["extent"])), x["l"])
        elif x["e"] == "call" and x.get("ret") is not None and x["ret"][0] == "obj":
            ak = alloc_kind(x["name"])
            if ak and ak[1] and x["args"]:
                out[x["ret"]] = (x["args"][0], "%s(%s,...)" % (x["name"], sym.show(x["args"][0])), x["l"])
    # fields (or other lvalues) that hold such an array: subscripts through them reach the same storage
    stores = {}
    for x in flat(effs):
        if x["e"] == "store" and x["op"] == "=":
            stores.setdefault(x["lv"], []).append(x["val"])
    for lv, vals in stores.items():
        if len(vals) == 1 and vals[0] in out and lv[0] != "var":
            out[lv] = out[vals[0]]
    return out


class Requirements:
    """required extent of pointer parameters: fn usr -> {param index: [(required extent term over the
    callee's parameters, line, detail)]}, computed from direct subscripts and (recursively) callees"""

    def __init__(self, v):
        self.v = v
        self.cache = {}
        self.busy = set()

    def of(self, usr, depth=0):
        if usr in self.cache:
            return self.cache[usr]
        if usr in self.busy or usr not in self.v.defs or depth > 5:
            return {}
        self.busy.add(usr)
        f = self.v.defs[usr]
        eff, st, ex = run_function(self.v, f, hooks=Hooks())
        names = [p["n"] for p in f.params]
        req = {}
        def own_terms(t):
            return all(sym.root_of(a) is not None and sym.root_of(a)[0] == "sym" and sym.root_of(a)[1] in names
                       for a in sym.atoms(t) if a[0] in ("sym", "fld")) and not _has_unk(t)

        for it, loops, guards, line, kind in accesses(eff):
            base = it[1]
            if kind == "arg" :
                continue          # pointer arithmetic handed to a callee: handled with the callee's requirement below
            if base[0] == "sym" and base[1] in names and "*" in f.params[names.index(base[1])]["t"]:
                rng = index_range(it[2], loops)
                if rng is None:
                    continue
                need = sym.add(rng[1], I(1))
                if own_terms(need):
                    req.setdefault(names.index(base[1]), []).append((need, "%s:%s" % (f.file, line), sym.show(it)))
            elif base[0] == "fld" and base[1][0] == "idx" and base[1][2] == ZERO and base[1][1][0] == "sym" and base[1][1][1] in names:
                # p->F[index]: a requirement on the array held in field F of the object passed as p
                rng = index_range(it[2], loops)
                if rng is None:
                    continue
                need = sym.add(rng[1], I(1))
                if own_terms(need):
                    req.setdefault((names.index(base[1][1][1]), base[2]), []).append((need, "%s:%s" % (f.file, line), sym.show(it)))
        for x, loops, guards in walk_eff(eff):
            if x["e"] == "call" and x.get("usr") in self.v.defs:
                sub = self.of(x["usr"], depth + 1)
                cal = self.v.defs[x["usr"]]
                cnames = [p["n"] for p in cal.params]
                for pi, lst in sub.items():
                    if isinstance(pi, tuple):
                        # field requirement of the callee: propagate when this function passes one of its own parameters through
                        a = x["args"][pi[0]] if pi[0] < len(x["args"]) else None
                        if a is not None and a[0] == "sym" and a[1] in names:
                            m = {sym.sym(n): (x["args"][i] if i < len(x["args"]) and x["args"][i] is not None else ("unk", "arg"))
                                 for i, n in enumerate(cnames)}
                            for need, where, detail in lst:
                                rng = index_range(sym.subst(need, m), loops)
                                if rng is not None and own_terms(rng[1]):
                                    req.setdefault((names.index(a[1]), pi[1]), []).append((rng[1], where, "via %s: %s" % (cal.name, detail)))
                        continue
                    a = x["args"][pi] if pi < len(x["args"]) else None
                    base, off = split_base_offset(a)
                    if base is None or base[0] != "sym" or base[1] not in names:
                        continue
                    m = {sym.sym(n): (x["args"][i] if i < len(x["args"]) and x["args"][i] is not None else ("unk", "arg"))
                         for i, n in enumerate(cnames)}
                    for need, where, detail in lst:
                        need2 = sym.add(off, sym.subst(need, m))
                        rng = index_range(need2, loops)
                        if rng is None:
                            continue
                        need3 = rng[1]
                        if own_terms(need3):
                            req.setdefault(names.index(base[1]), []).append((need3, where, "via %s: %s" % (cal.name, detail)))
        self.busy.discard(usr)
        self.cache[usr] = req
        return req


def _has_unk(t):
    if not isinstance(t, tuple) or not t:
        return False
    if t[0] in ("unk", "var", "obj", "new", "call"):
        return True
    if not isinstance(t[0], str):
        return any(_has_unk(y) for y in t)
    if t[0] == "poly":
        return any(any(_has_unk(a) for a in m) for m, _ in t[1])
    return any(_has_unk(y) for y in t[1:] if isinstance(y, tuple))


def check_function(v, fn, reqs, rel=None):
    """-> list of obligations dicts {key, status, where, detail} for arrays allocated in fn"""
    eff, st, ex = run_function(v, fn, hooks=Hooks())
    arrays = local_arrays(eff)
    obs = []
    if not arrays:
        return obs, 0
    rel = rel or {}
    roots = {sym.sym(p["n"]): p["t"] for p in fn.params}
    if fn.get("record"):
        roots[sym.sym("this")] = fn.record + " *"
    R = lambda t: apply_relations(v, t, roots, rel) if rel else t
    for it, loops, guards, line, kind in accesses(eff):
        base, index = it[1], it[2]
        if base not in arrays or kind == "arg":
            continue
        ext, desc, aline = arrays[base]
        ext = R(ext)
        rng = index_range(index, loops)
        if rng is not None:
            rng = (R(rng[0]), R(rng[1]))
        key = "%s: index %s within %s" % (fn.name, sym.show(index)[:40], desc)
        where = "%s:%s" % (fn.file, line)
        if rng is None:
            obs.append({"key": key, "status": "assumed", "where": where,
                        "detail": "index is not affine in the loop variables (or the loop is not canonical)"})
            continue
        lo, hi = rng
        s1, d1 = decide_nonneg(lo)
        s2, d2 = decide_nonneg(sym.sub(ext, sym.add(hi, I(1))))
        if guards and (s1 != "proved" or s2 != "proved"):
            from . import affine
            gf = affine.guard_constraints([R(g) for g in guards]) + affine.loop_constraints(loops)
            if affine.prove_nonneg(R(index), gf) and affine.prove_nonneg(sym.sub(sym.sub(ext, R(index)), I(1)), gf):
                obs.append({"key": key, "status": "proved", "where": where,
                            "detail": "0 <= %s < %s under %s" % (sym.show(index), sym.show(ext), "; ".join(sym.show(g) for g in guards)[:80])})
                continue
            obs.append({"key": key, "status": "assumed", "where": where,
                        "detail": "access is under a condition (%s); bound not decided without it" % sym.show(guards[-1])[:60]})
            continue
        if s2 == "refuted" or s1 == "refuted":
            obs.append({"key": key, "status": "refuted", "where": where,
                        "detail": "extent %s, index range [%s, %s]: %s" % (
                            sym.show(ext), sym.show(lo), sym.show(hi), d2 if s2 == "refuted" else d1),
                        "data": {"extent": sym.show(ext), "max_index": sym.show(hi), "allocated_at": aline}})
        elif s1 == "proved" and s2 == "proved":
            obs.append({"key": key, "status": "proved", "where": where,
                        "detail": "0 <= %s and %s + 1 <= %s" % (sym.show(lo), sym.show(hi), sym.show(ext))})
        else:
            obs.append({"key": key, "status": "assumed", "where": where,
                        "detail": "extent %s vs index range [%s, %s]: %s / %s" % (sym.show(ext), sym.show(lo), sym.show(hi), d1, d2)})
    # arrays passed to callees with a known requirement
    for x, loops, guards in walk_eff(eff):
        if x["e"] != "call" or x.get("usr") not in v.defs:
            continue
        cal = v.defs[x["usr"]]
        sub = reqs.of(x["usr"])
        cnames = [p["n"] for p in cal.params]
        for pi, lst in sub.items():
            if isinstance(pi, tuple):
                continue
            a0 = x["args"][pi] if pi < len(x["args"]) else None
            a, off = split_base_offset(a0)
            if a not in arrays:
                continue
            ext, desc, aline = arrays[a]
            ext = R(ext)
            m = {sym.sym(n): (x["args"][i] if i < len(x["args"]) and x["args"][i] is not None else ("unk", "arg"))
                 for i, n in enumerate(cnames)}
            for need, where2, detail in lst:
                need2 = sym.add(off, sym.subst(need, m))
                rng = index_range(need2, loops)
                if rng is None:
                    continue
                need2 = R(rng[1])
                key = "%s: %s passed to %s needs %s elements" % (fn.name, desc, cal.name, sym.show(need2)[:40])
                where = "%s:%s" % (fn.file, x["l"])
                if _has_unk(need2):
                    obs.append({"key": key, "status": "assumed", "where": where, "detail": "requirement depends on run-time data"})
                    continue
                s, d = decide_nonneg(sym.sub(ext, need2))
                if s != "proved" and guards:
                    # the call is under conditions: use them (d <= c guards bound a dimension by a constant)
                    from . import affine
                    if affine.prove_nonneg(sym.sub(ext, need2), affine.guard_constraints([R(g) for g in guards])):
                        s, d = "proved", "under %s" % "; ".join(sym.show(g) for g in guards)[:80]
                    else:
                        s, d = "unknown", "call is under a condition (%s); bound not decided with it" % sym.show(guards[-1])[:60]
                obs.append({"key": key, "status": {"proved": "proved", "refuted": "refuted", "unknown": "assumed"}[s], "where": where,
                            "detail": "%s accesses %s (%s): %s" % (cal.name, detail, where2, d)})
    return obs, len(arrays)


def _short(t):
    if t[0] == "new":
        return "new#%s" % t[3]
    if t[0] == "obj":
        return "%s#%s" % (t[1], t[3])
    return sym.show(t)[:30]
