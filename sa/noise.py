"""A10 — noise-domain abstract interpreter: closed-form (mean, variance) of the phase error of a gate output as a
function of the parameter constants and of structural facts established from the code's shape.  It evaluates
formulas; it samples nothing.  All quantities in torus units (1 = the whole torus).

Transfer functions
  CMux step (external product of a TGSW row set with sigma_bk):
      noise:       (k+1) * l * N * E[d^2] * sigma_bk^2         E[d^2] = (Bg^2+2)/12 balanced digits, (Bg-1)(2Bg-1)/6 digits in [0,Bg)
      truncation:  key bit 1 (prob 1/2): (1 + kN/2) * eps^2/12  +  (eps/2)^2 * (kN)^2/12      eps = 2^-(l*Bgbit)
                   (the decomposition floors: the per-coefficient bias eps/2 times the signed partial sums of the key is rotated
                    by the later steps, so it contributes variance, not mean)
  blind rotation = n CMux steps from a noiseless accumulator; extraction: unchanged
  key switch: kN * t * (1 - 1/base) * sigma_ks^2  (factor dropped if zero digits are not skipped)
              + (kN/2) * delta^2/12, delta = 2^-(t*basebit); mean 0 with the half-LSB rounding offset, -(kN/2)*delta/2 without
  gate = blind rotation + key switch; MUX = 2 blind rotations + key switch
"""
import math


def gate_noise(c, balanced=True, ks_rounding=True, ks_skip_zero=True):
    n, N, k, l, Bgbit, t, basebit = c["n"], c["N"], c["k"], c["l"], c["Bgbit"], c["ks_t"], c["ks_basebit"]
    sbk, sks = c["bk_stdev"], c["ks_stdev"]
    Bg = 2 ** Bgbit
    base = 2 ** basebit
    Ed2 = (Bg * Bg + 2) / 12.0 if balanced else (Bg - 1) * (2 * Bg - 1) / 6.0
    eps = 2.0 ** (-(l * Bgbit))
    cmux_noise = (k + 1) * l * N * Ed2 * sbk * sbk
    cmux_trunc = (1 + k * N / 2.0) * eps * eps / 12.0 + (eps / 2) ** 2 * (k * N) ** 2 / 12.0
    var_br = n * (cmux_noise + 0.5 * cmux_trunc)
    delta = 2.0 ** (-(t * basebit))
    var_ks = k * N * t * ((1 - 1.0 / base) if ks_skip_zero else 1.0) * sks * sks + (k * N / 2.0) * delta * delta / 12.0
    mean_ks = 0.0 if ks_rounding else -(k * N / 2.0) * delta / 2.0
    out = {
        "var_blind_rotation": var_br, "var_key_switch": var_ks, "mean": mean_ks,
        "sigma_gate": math.sqrt(var_br + var_ks), "sigma_mux": math.sqrt(2 * var_br + var_ks),
        "terms": {"cmux_noise": cmux_noise, "cmux_truncation": 0.5 * cmux_trunc, "E_d2": Ed2, "eps": eps, "delta": delta},
    }
    return out
