"""A9 -- finite-state exploration of one loop of a function.

Some loops carry a small discrete state from one iteration to the next that has no closed form in the iteration
count: which of two buffers currently holds the value (ping-pong through swapped pointers, through an index that
is toggled, through a conditional assignment), a flag, a phase.  Such variables take finitely many values, all of
them terms known at loop entry.  LoopMachine runs the executor on the statements before the loop, then on the loop
body once per (reachable carried state, control path), then on the statements after the loop once per (reachable
state, control path), and returns the transition system:

    entry state  --path(conditions, effects)-->  next state | exit

Conditions that only involve the carried state are decided (constant folding, identity of allocations); the others
(data-dependent tests such as bara[i] == 0) fork the path.  Nothing is executed: every run is a symbolic
interpretation of the syntax tree, and the exploration terminates because the set of states is finite (a bound on
the number of states turns a runaway into ANALYSIS-BROKEN).
"""
from . import sym
from .sym import I, ZERO
from .symexec import Exec, Hooks, assigned_ids, flat
from .facts import walk


class _PathHooks(Hooks):
    def __init__(self, base, prefix):
        self.base = base or Hooks()
        self.prefix = list(prefix)
        self.asked = []

    def want_inline(self, ex, callee, node):
        return self.base.want_inline(ex, callee, node)

    def call_value(self, ex, node, name, args, this=None):
        return self.base.call_value(ex, node, name, args, this)

    def is_noreturn(self, ex, name, usr):
        return self.base.is_noreturn(ex, name, usr)

    def decide(self, ex, cond):
        d = self.base.decide(ex, cond)
        if d is not None:
            return d
        d = static_decide(cond)
        if d is not None:
            return d
        k = len(self.asked)
        choice = self.prefix[k] if k < len(self.prefix) else True
        self.asked.append((cond, choice))
        return choice


def _identity(t):
    """'fresh' for a term naming an object allocated by the function itself, 'given' for a parameter / global, else None"""
    if not isinstance(t, tuple) or not t:
        return None
    if t[0] in ("obj", "new"):
        return "fresh"
    if t[0] in ("sym", "glob"):
        return "given"
    if t[0] == "addr" and t[1][0] == "var":
        return "fresh"
    return None


def static_decide(cond):
    """truth value of a condition over known terms: constants, syntactically equal terms, and pointer comparisons
    between an object this function allocated and a different object"""
    c = sym.const_value(cond)
    if c is not None:
        return bool(c)
    if cond[0] == "op" and cond[1] in ("==", "!="):
        a, b = cond[2], cond[3]
        if a == b:
            return cond[1] == "=="
        ia, ib = _identity(a), _identity(b)
        if ia and ib and "fresh" in (ia, ib):
            return cond[1] == "!="          # a fresh allocation differs from every other object
        if (a == ZERO and ib == "fresh") or (b == ZERO and ia == "fresh"):
            return cond[1] == "!="
    return None


def strip_ptr(t):
    return t.replace("const", "").strip().endswith("*")


class LoopMachine:
    MAX_STATES = 32
    MAX_PATHS = 64

    def __init__(self, v, fn, select, hooks=None):
        """select(loop AST node) -> True for the loop to explore (a statement of the function's top-level block)"""
        self.v, self.fn, self.base = v, fn, hooks
        body = fn.d.get("body") or {}
        stmts = body.get("s", []) if body.get("k") == "block" else []
        at = [k for k, s in enumerate(stmts) if s.get("k") in ("for", "while") and select(s)]
        if len(at) != 1:
            raise LookupError("%s: %d top-level loops selected" % (fn.name, len(at)))
        self.pre, self.loop, self.post = stmts[:at[0]], stmts[at[0]], stmts[at[0] + 1:]
        self.problems = []
        self.serial0 = Exec.serial + 1000       # every run numbers its allocations the same way

    # ------------------------------------------------------------------ helpers
    def _fresh(self, prefix):
        hooks = _PathHooks(self.base, prefix)
        Exec.serial = self.serial0
        ex = Exec(self.v, self.fn, hooks=hooks)
        pre = []
        for s in self.pre:
            st = ex.block(s, pre)
            if st != "fall":
                raise LookupError("%s: the code before the loop does not fall through" % self.fn.name)
        return ex, hooks, pre

    def _carried(self, ex):
        node = self.loop
        asg, _ = assigned_ids([node.get("body"), node.get("inc"), node.get("c")])
        return [i for i in asg if i in ex.env and not (isinstance(ex.env[i], tuple) and ex.env[i][0] in ("cell", "alias"))]

    def _state_of(self, ex, carried, skip=()):
        env = tuple(sorted((i, ex.env[i]) for i in carried if i not in skip))
        mem = tuple(sorted((k, val) for k, val in ex.mem.items() if sym.root_of(k) is not None and sym.root_of(k)[0] == "var"))
        return env, mem

    def _install(self, ex, state):
        env, mem = state
        for i, val in env:
            ex.env[i] = val
        for k in [k for k in ex.mem if sym.root_of(k) is not None and sym.root_of(k)[0] == "var"]:
            del ex.mem[k]
        for k, val in mem:
            ex.mem[k] = val

    def _paths(self, run):
        """run(prefix) -> (result, asked): depth-first over the undecided conditions"""
        todo, out = [[]], []
        while todo:
            prefix = todo.pop()
            res, asked = run(prefix)
            out.append((res, asked))
            if len(out) > self.MAX_PATHS:
                raise LookupError("%s: more than %d control paths" % (self.fn.name, self.MAX_PATHS))
            for k in range(len(prefix), len(asked)):
                todo.append([c for _, c in asked[:k]] + [False])
        return out

    # ------------------------------------------------------------------ the exploration
    def explore(self):
        """-> {"init": state, "var": induction term or None, "states": [...],
               "steps": [(state, conds, effects, status, next state)], "exits": [(state, conds, effects, status)],
               "pre": effects before the loop}"""
        node = self.loop
        ex0, _, pre = self._fresh([])
        name = None

        def run_init(ex):
            if node.get("k") == "for" and node.get("init") is not None:
                init = node["init"]
                if init.get("k") == "decl":
                    ex.block(init, [])
                else:
                    ex.ev(init, [], stmt=True)

        def inc_parts():
            parts = []

            def fl(nd):
                if isinstance(nd, dict) and nd.get("k") == "bin" and nd.get("op") == ",":
                    fl(nd["a"]); fl(nd["b"])
                elif nd is not None:
                    parts.append(nd)
            fl(node.get("inc") if node.get("k") == "for" else None)
            return parts
        # variables that advance by a loop-invariant amount per iteration (the counter, walking pointers) are closed forms
        # of the iteration number K and are not part of the carried state
        exd, _, _ = self._fresh([])
        run_init(exd)
        exd.hooks = self.base or Hooks()         # neutral: the detection must see every branch, not one forced path
        derived = exd.detect_derived(node.get("body"), inc_parts(), None, None)
        derived = {i: kd for i, kd in derived.items() if kd[0] == "add"}
        entry = {i: exd.env[i] for i in derived}
        ptrs = {}
        for n_ in walk([node.get("body"), node.get("inc"), node.get("c")]):
            if n_.get("k") == "ref" and n_.get("id") in derived:
                ptrs[n_["id"]] = strip_ptr(n_.get("t", ""))
        K = sym.sym("k@%d" % node["l"])

        def bind(ex, count):
            for i, (kind, d) in derived.items():
                off = sym.mul(d, count)
                ex.env[i] = sym.padd(entry[i], off) if ptrs.get(i) else sym.add(entry[i], off)

        def enter(prefix, state):
            ex, hooks, _ = self._fresh([])
            hooks.prefix = list(prefix)
            hooks.asked = []
            run_init(ex)
            if state is not None:
                self._install(ex, state)
            return ex, hooks
        ex1, _ = enter([], None)
        ivar = K if derived else None
        primary = None
        skip = tuple(derived)
        init_state = self._state_of(ex1, [i for i in self._carried(ex1)], skip)
        carried = [i for i in self._carried(ex1) if i not in skip]
        states, steps, work = [init_state], [], [init_state]
        while work:
            s = work.pop()

            def run(prefix, s=s):
                ex, hooks = enter(prefix, s)
                bind(ex, K)
                out = []
                st = ex.block(node.get("body"), out)
                if st in ("fall", "continue") and node.get("k") == "for" and node.get("inc") is not None:
                    ex.ev(node["inc"], out, stmt=True)
                return (out, st, self._state_of(ex, carried)), hooks.asked
            for (out, st, nxt), asked in self._paths(run):
                steps.append((s, list(asked), out, st, nxt))
                if st in ("fall", "continue") and nxt not in states:
                    states.append(nxt)
                    work.append(nxt)
                    if len(states) > self.MAX_STATES:
                        raise LookupError("%s: the loop-carried state does not stay within %d values (%s)" % (
                            self.fn.name, self.MAX_STATES, [sym.show(val)[:40] for _, val in nxt[0]]))
        exits = []
        for s in states:
            def run(prefix, s=s):
                ex, hooks = enter(prefix, s)
                bind(ex, sym.sym("k-after-loop@%d" % node["l"]))
                out = []
                st = "fall"
                for stmt in self.post:
                    st = ex.block(stmt, out)
                    if st != "fall":
                        break
                return (out, st), hooks.asked
            for (out, st), asked in self._paths(run):
                exits.append((s, list(asked), out, st))
        names = {i: ex1._name_of(i) for i in carried}
        return {"init": init_state, "var": ivar, "states": states, "steps": steps, "exits": exits, "pre": pre, "names": names}


def show_state(state, names=None):
    env, mem = state
    parts = ["%s=%s" % ((names or {}).get(i, "v%d" % i), sym.show(val)[:40]) for i, val in env]
    parts += ["%s=%s" % (sym.show(k)[:30], sym.show(val)[:40]) for k, val in mem]
    return "{" + ", ".join(parts) + "}"
