"""A10 -- interpretation of an effect tree for concrete dimensions.

interpret(effects, env, handler) walks the effect tree of a function in execution order for given integer values
of the dimension symbols (k, l, n, ...): counted loops are iterated, conditions over the dimensions and the loop
variables are evaluated, and `handler` is called for every store and call with the environment of that moment.
The *data* stay abstract: the handler of a rule gives each primitive call its meaning on abstract values (a digit
of a polynomial, a transform of it, a multiset of products ...), so that what reaches the output can be compared
with the specification as a term.  Nothing of the library is executed: this evaluates loop descriptors and index
terms produced by the symbolic executor.  A verdict holds for the grid of dimensions the rule enumerates (bounded
evidence, stated by the rule), for all data.
"""
from . import sym
from .sym import I, ZERO
from .secretflow import eval_term


class NotEvaluable(Exception):
    pass


class _Jump(Exception):
    def __init__(self, kind):
        self.kind = kind


def lvalue_location(t, env):
    """lvalue term -> (root term, path): subscripts are integers, fields are names; x->f is x[0].f"""
    while t[0] == "cast":
        t = t[2]
    if t[0] == "idx":
        r, p = _base(t[1], env)
        k = eval_term(t[2], env)
        if k is None:
            raise NotEvaluable("subscript %s" % sym.show(t[2])[:120])
        return r, p + (k,)
    if t[0] == "fld":
        r, p = lvalue_location(t[1], env)
        return r, p + (t[2],)
    return t, ()


def _base(p, env):
    """the array a pointer VALUE designates: a pointer-typed field is identified with the array it points to"""
    while p[0] == "cast":
        p = p[2]
    if p[0] in ("fld", "idx"):
        return lvalue_location(p, env)
    if p[0] == "addr":
        return lvalue_location(p[1], env)
    return p, ()


def location(t, env):
    """pointer term (an argument) -> location of its pointee: &lv -> lv, p -> p[0]"""
    while t[0] == "cast":
        t = t[2]
    if t[0] == "addr":
        return lvalue_location(t[1], env)
    return lvalue_location(("idx", t, ZERO), env)


def map_terms(effs, fn):
    """a copy of an effect tree with fn applied to every term it holds (values, lvalues, conditions, loop bounds, arguments)"""
    def is_term(x):
        return isinstance(x, tuple) and x and isinstance(x[0], str)

    def go(x):
        if isinstance(x, dict):
            return {k_: (v_ if k_ in ("node", "fn") else go(v_)) for k_, v_ in x.items()}
        if isinstance(x, list):
            return [go(y) for y in x]
        if is_term(x):
            return fn(x)
        if isinstance(x, tuple):
            return tuple(go(y) for y in x)
        return x
    return go(effs)


def interpret(effs, env, handler, limit=200000, on_segment=None):
    """on_segment(env, loop effect) is called where the executor re-reads local variables that a loop modifies: at the start of
    every iteration and after the loop (terms in between are expressed over the values at that point; derived induction variables
    of that loop are the exception, see PolyState.segment)."""
    count = [0]
    depth = [0]

    def cmp_(op, a, b):
        return {"<": a < b, "<=": a <= b, ">": a > b, ">=": a >= b, "!=": a != b}[op]

    def go(effs, env):
        for x in effs:
            e = x["e"]
            count[0] += 1
            if count[0] > limit:
                raise NotEvaluable("more than %d steps" % limit)
            if e == "loop":
                lo, hi, st = eval_term(x["lo"], env), eval_term(x["hi"], env), eval_term(x["step"], env)
                if lo is None or hi is None:
                    # a bound that mentions a local the handler keeps (a count found by scanning the data): ask the handler
                    ask = lambda t_: handler("value", {"term": t_, "l": x.get("l")}, env)
                    lo = ask(x["lo"]) if lo is None else lo
                    hi = ask(x["hi"]) if hi is None else hi
                if lo is None or hi is None or not st:
                    raise NotEvaluable("loop at line %s: range [%s, %s)" % (x.get("l"), sym.show(x["lo"]), sym.show(x["hi"])))
                i = lo
                first_ = bool(x.get("at_least_once"))
                while first_ or cmp_(x["cmp"], i, hi):
                    first_ = False
                    e2 = dict(env)
                    e2[x["var"]] = i
                    if on_segment:
                        on_segment(e2, x)
                    try:
                        try:
                            go(x["body"], e2)
                        except _Jump as j:
                            if j.kind != "continue":
                                raise
                        go(x.get("latch") or [], e2)
                    except _Jump as j:
                        if j.kind == "break":
                            break
                        raise
                    i += st
                if on_segment:
                    on_segment(env, x)
            elif e == "while":
                # a loop the executor could not count (its test depends on data): run it, when the handler can decide the test.
                # Terms of the body are expressed over the values at the start of the iteration (segment at every iteration).
                if x.get("kind") not in ("while", "for?", "for"):
                    raise NotEvaluable("loop at line %s is not a counted loop" % x.get("l"))
                n_it = 0
                while True:
                    if on_segment:
                        on_segment(env, x)
                    c = eval_term(x["cond"], env) if isinstance(x.get("cond"), tuple) else None
                    if c is None:
                        c = handler("cond", x, env)
                    if c is None:
                        raise NotEvaluable("test %s of the loop at line %s" % (sym.show(x["cond"])[:80] if isinstance(x.get("cond"), tuple) else "?", x.get("l")))
                    if not c:
                        break
                    n_it += 1
                    if n_it > 4096:
                        raise NotEvaluable("loop at line %s does not end" % x.get("l"))
                    try:
                        go(x["body"], env)
                    except _Jump as j:
                        if j.kind == "break":
                            break
                        if j.kind != "continue":
                            raise
                if on_segment:
                    on_segment(env, x)
            elif e == "if":
                c = eval_term(x["cond"], env)
                if c is None:
                    c = handler("cond", x, env)
                    if c is None:
                        raise NotEvaluable("condition %s at line %s" % (sym.show(x["cond"])[:100], x.get("l")))
                go(x["then"] if c else x["else"], env)
            elif e == "inlined":
                depth[0] += 1
                try:
                    go(x["body"], env)
                except _Jump as j:
                    if j.kind != "return":
                        raise
                finally:
                    depth[0] -= 1
            elif e in ("break", "continue", "return"):
                if e == "return" and not depth[0]:
                    handler("return", x, env)      # (the return of an inlined callee is a value flow the executor has already substituted)
                raise _Jump(e)
            elif e == "exit":
                raise _Jump("exit")
            elif e in ("store", "call", "alloc", "delete", "asm", "unknown", "local"):
                handler(e, x, env)
    try:
        go(effs, env)
    except _Jump:
        pass


class Memory:
    """abstract values by location; reading a location nobody wrote gives ("init", location); a write to a prefix of
    a location overwrites everything below it"""

    def __init__(self):
        self.cells = {}
        self.order = []

    def write(self, loc, val):
        r, p = loc
        for k in [k for k in self.cells if k[0] == r and k[1][:len(p)] == p and k != loc]:
            del self.cells[k]
        self.cells[loc] = val

    def read(self, loc):
        if loc in self.cells:
            return self.cells[loc]
        r, p = loc
        for n in range(len(p) - 1, -1, -1):
            if (r, p[:n]) in self.cells:
                return ("part", p[n:], self.cells[(r, p[:n])])
        return ("init", loc)

    def shift(self, loc, k):
        r, p = loc
        if p and isinstance(p[-1], int):
            return r, p[:-1] + (p[-1] + k,)
        return r, p + (k,)


# ---------------------------------------------------------------- linear abstract values
# A value is a linear form {atom: integer coefficient} over abstract atoms (("P", u) = coefficient u of a product,
# ("init", location) = what a location held on entry).  Enough for copy / add / subtract / negate statements.
def lin_add(a, b, sb=1):
    out = dict(a)
    for k, c in b.items():
        out[k] = out.get(k, 0) + sb * c
        if out[k] == 0:
            del out[k]
    return out


def linear_eval(t, env, mem):
    """value of a term as a linear form: loads are looked up in mem (LinearMemory), integers scale; None if not linear"""
    k = t[0]
    if k == "cast":
        return linear_eval(t[2], env, mem)
    c = eval_term(t, env)
    if c is not None:
        return {(): c} if c else {}
    if k in ("idx", "fld"):
        return mem.read(lvalue_location(t, env))
    if k == "poly":
        out = {}
        for mono, coef in t[1]:
            scal, form = coef, None
            for a in mono:
                av = eval_term(a, env)
                if av is not None:
                    scal *= av
                elif form is None:
                    form = linear_eval(a, env, mem)
                    if form is None:
                        return None
                else:
                    return None
            out = lin_add(out, form if form is not None else {(): 1}, scal)
        return out
    return None


class LinearMemory(Memory):
    def read(self, loc):
        val = Memory.read(self, loc)
        if isinstance(val, dict):
            return val
        return {val: 1}            # ("init", loc) or a part of a larger write: an opaque atom

    def store(self, loc, op, form):
        if op == "=":
            self.write(loc, form)
        elif op in ("+=", "-="):
            self.write(loc, lin_add(self.read(loc), form, 1 if op == "+=" else -1))
        else:
            raise NotEvaluable("operator %s" % op)


def iterate(loops, env, limit=200000):
    """environments of every iteration of a nest of counted loops (descriptors from the executor), in execution order, for
    concrete values of the dimensions in env; ascending or descending, any constant step.  NotEvaluable when a bound is not."""
    count = [0]

    def go(k, env):
        if k == len(loops):
            yield env
            return
        l = loops[k]
        lo, hi, st = eval_term(l["lo"], env), eval_term(l["hi"], env), eval_term(l["step"], env)
        if lo is None or hi is None or not st or "var" not in l:
            raise NotEvaluable("loop at line %s: range [%s, %s) step %s" % (l.get("l"), sym.show(l["lo"]), sym.show(l["hi"]), sym.show(l["step"])))
        i = lo
        first = bool(l.get("at_least_once"))
        while first or {"<": i < hi, "<=": i <= hi, ">": i > hi, ">=": i >= hi, "!=": i != hi}[l["cmp"]]:
            first = False
            count[0] += 1
            if count[0] > limit:
                raise NotEvaluable("more than %d iterations" % limit)
            e2 = dict(env)
            e2[l["var"]] = i
            yield from go(k + 1, e2)
            i += st
    yield from go(0, dict(env))


# ---------------------------------------------------------------- polynomial abstract values
# A value is a polynomial {sorted tuple of atoms: integer coefficient} over what the locations held on entry; enough for
# sums of products (inner products, phases).  Local scalar variables live in PolyState: the executor expresses the terms
# of a straight-line segment over the values the locals had at the segment's start, so reads go to a snapshot taken by
# on_segment and writes to the live copy.
def _pmul(a, b):
    out = {}
    for m1, c1 in a.items():
        for m2, c2 in b.items():
            m = tuple(sorted(m1 + m2, key=repr))
            out[m] = out.get(m, 0) + c1 * c2
            if out[m] == 0:
                del out[m]
    return out


class PolyState(Memory):
    def __init__(self, alias=None):
        Memory.__init__(self)
        self.alias = alias                   # location -> canonical location (two access paths to one object, e.g. TLweSample::b = a + k)
        self.live, self.snap = {}, {}
        self.calls, self.ncalls = {}, 0      # value term of a call -> the atom standing for its latest result

    def called(self, x):
        """a call effect whose scalar result is opaque (a random draw, a conversion): a fresh atom ("draw", value term, serial)
        stands for this result until the same call is made again"""
        r = x.get("ret")
        if isinstance(r, tuple) and r and r[0] == "call":
            self.ncalls += 1
            self.calls[r] = ("draw", r, self.ncalls)

    def segment(self, env=None, loop=None):
        """the locals a loop re-reads at this point.  A *derived* variable of the loop (a closed form of its induction variable) is
        expressed over the value it had when the loop was entered, not over its value at this iteration: it keeps its snapshot."""
        keep = set((loop or {}).get("derived") or ())
        self.snap = {k: (self.snap[k] if k[1] in keep and k in self.snap else v) for k, v in self.live.items()}

    def write(self, loc, val):
        Memory.write(self, self.alias(loc) if self.alias else loc, val)

    def read(self, loc):
        if self.alias:
            loc = self.alias(loc)
        val = Memory.read(self, loc)
        if val is None or (isinstance(val, tuple) and val and val[0] == "part" and val[2] is None):
            return None                      # something opaque (a float, a pointer) was stored there
        return val if isinstance(val, dict) else {(val,): 1}

    def truth(self, c, env):
        """truth value of a condition over constants (dimensions, loop variables, locals holding constants); None otherwise"""
        const = lambda val: None if val is None else 0 if val == {} else val.get(()) if set(val) == {()} else None
        if c[0] == "un" and c[1] == "!":
            r = self.truth(c[2], env)
            return None if r is None else not r
        if c[0] == "op" and c[1] in ("&&", "||"):
            a = self.truth(c[2], env)
            if a is not None and a == (c[1] == "||"):
                return a
            b = self.truth(c[3], env)
            return None if a is None or b is None else b
        if c[0] == "op" and c[1] in ("==", "!=", "<", "<=", ">", ">="):
            a, b = const(self.value(c[2], env)), const(self.value(c[3], env))
            if a is None or b is None:
                return None
            return {"==": a == b, "!=": a != b, "<": a < b, "<=": a <= b, ">": a > b, ">=": a >= b}[c[1]]
        v = const(self.value(c, env))
        return None if v is None else bool(v)

    def loc(self, t, env):
        """location of an lvalue; a subscript that mentions locals is evaluated through their (constant) values"""
        try:
            return lvalue_location(t, env)
        except NotEvaluable:
            pass
        while t[0] == "cast":
            t = t[2]
        if t[0] == "idx":
            val = self.value(t[2], env)
            k = 0 if val == {} else val.get(()) if val is not None and set(val) == {()} else None
            if k is None:
                raise NotEvaluable("subscript %s" % sym.show(t[2])[:80])
            return lvalue_location(("idx", t[1], ("int", k)), env)
        if t[0] == "fld":
            r, p = self.loc(t[1], env)
            return r, p + (t[2],)
        return t, ()

    def value(self, t, env):
        """polynomial value of a term, None when it is not a polynomial in the entry values"""
        k = t[0]
        if k == "cast":
            return self.value(t[2], env)
        c = eval_term(t, env)
        if c is not None:
            return {(): c} if c else {}
        if k == "var":
            return self.snap[t] if t in self.snap else {(t,): 1}      # None: the local holds something opaque
        if k == "call" and t in self.calls:
            return {(self.calls[t],): 1}
        if k == "sym":
            return {(t,): 1}                  # a scalar argument
        if k in ("idx", "fld"):
            return self.read(self.loc(t, env))
        if k == "poly":
            out = {}
            for mono, coef in t[1]:
                prod = {(): coef}
                for a in mono:
                    av = self.value(a, env)
                    if av is None:
                        return None
                    prod = _pmul(prod, av)
                out = lin_add(out, prod)
            return out
        if k == "cond":
            c = eval_term(t[1], env)
            if c is None:
                c = self.truth(t[1], env)
            return None if c is None else self.value(t[2] if c else t[3], env)
        if k == "un" and t[1] == "-":
            x = self.value(t[2], env)
            return None if x is None else lin_add({}, x, -1)
        if k == "op" and t[1] in ("+", "-"):
            a, b = self.value(t[2], env), self.value(t[3], env)
            return None if a is None or b is None else lin_add(a, b, 1 if t[1] == "+" else -1)
        if k == "op" and t[1] == "*":
            a, b = self.value(t[2], env), self.value(t[3], env)
            return None if a is None or b is None else _pmul(a, b)
        if k != "unk" and not any(st_[0] in ("idx", "fld", "var", "call", "unk", "glob") for st_ in sym.subterms(t)):
            return {(("opaque", t),): 1}      # a function of the scalar arguments only (a float conversion ...): an atom named by its term
        return None

    def assign(self, x, env):
        """a `local` or `store` effect (a local's effect carries its complete new value in "new", or in "val" for ++/--/decl)"""
        if x["e"] == "local":
            t = x["new"] if isinstance(x.get("new"), tuple) else x.get("val")
            val = self.value(t, env) if isinstance(t, tuple) else None
            # a local whose value is not a polynomial (a pointer, a float): opaque, an error only if it is read as a number
            self.live[("var", x["name"], x["id"])] = val
            return
        val = self.value(x["val"], env) if isinstance(x.get("val"), tuple) else None
        op = x.get("op") or "="
        key = self.loc(x["lv"], env)
        old = self.read(key) if op != "=" else None
        if val is None or (op != "=" and old is None):
            self.write(key, None)            # not a polynomial (a variance, a pointer): opaque, an error only if it is read as a number
            return
        if op == "=":
            new = val
        elif op in ("+=", "-="):
            new = lin_add(old, val, 1 if op == "+=" else -1)
        elif op == "*=":
            new = _pmul(old, val)
        else:
            raise NotEvaluable("operator %s at line %s" % (op, x.get("l")))
        self.write(key, new)


def show_atom(a):
    if isinstance(a, tuple) and a and a[0] == "opaque":
        return "<%s>" % sym.show(a[1])[:40]
    if isinstance(a, tuple) and a and a[0] == "draw":
        return "%s#%d" % (sym.show(a[1])[:40], a[2])
    if isinstance(a, tuple) and a and a[0] == "init":
        r, path = a[1]
        s = sym.show(r)
        if len(path) > 1 and path[0] == 0 and isinstance(path[1], str):
            s, path = s + "->" + path[1], path[2:]
        for st in path:
            s += "[%d]" % st if isinstance(st, int) else "." + str(st)
        return s
    if isinstance(a, tuple) and a and isinstance(a[0], str) and all(isinstance(x, int) for x in a[1:]) and len(a) > 1:
        return "%s(%s)" % (a[0], ",".join(str(x) for x in a[1:]))        # an abstract value of a rule: digit(i), phase(row, j)
    return sym.show(a) if isinstance(a, tuple) and a and isinstance(a[0], str) else str(a)


def show_poly(p, limit=4):
    items = sorted(p.items(), key=repr)
    txt = " ".join("%+d*%s" % (c, "*".join(show_atom(a) for a in m) or "1") for m, c in items[:limit])
    return (txt or "0") + (" ..." if len(items) > limit else "")


def visited_tuples(pieces, terms_of, env):
    """for every iteration of every piece (a statement with its counted loop nest and guards) under the concrete dimensions
    in env: the tuple of integer values of terms_of(piece).  The way to decide "these calls visit rows 0..R-1 exactly once,
    source row = destination row" for any loop structure (flat, block-wise, running index or pointer).  NotEvaluable when
    a bound, a guard or a term has no value."""
    out = []
    for p in pieces:
        ts = [sym.trip_counts_nonneg(t) for t in terms_of(p)]
        loops = [dict(l, lo=sym.trip_counts_nonneg(l["lo"]), hi=sym.trip_counts_nonneg(l["hi"])) if "var" in l else l for l in p["loops"]]
        for e2 in iterate(loops, env):
            gs = [eval_term(g, e2) for g in p["guards"]]
            if None in gs:
                raise NotEvaluable("guard %s at line %s" % (sym.show(p["guards"][gs.index(None)])[:80], p.get("line")))
            if not all(gs):
                continue
            vals = tuple(eval_term(t, e2) for t in ts)
            if None in vals:
                raise NotEvaluable("term %s at line %s" % (sym.show(ts[vals.index(None)])[:80], p.get("line")))
            out.append(vals)
    return out


def dimension_atoms(effs):
    """the quantities the loop bounds and branch conditions of an effect tree depend on besides loop variables and locals:
    fields and scalar parameters (maximal non-arithmetic sub-terms)"""
    out, loopvars = [], set()

    def leaves(t):
        if not isinstance(t, tuple) or not t or t[0] in ("int", "float", "str", "unk"):
            return
        if t[0] == "poly":
            for m, _c in t[1]:
                for a in m:
                    yield from leaves(a)
        elif t[0] in ("op", "un", "cast", "cond"):
            for x in t[1:]:
                if isinstance(x, tuple):
                    yield from leaves(x)
        elif t[0] == "call" and t[1] == "$loop_end":
            for y in t[2][:3]:
                yield from leaves(y)
        else:
            yield t

    def go(es):
        for x in es:
            e = x["e"]
            if e == "loop":
                loopvars.add(x["var"])
                for k in ("lo", "hi", "step"):
                    out.extend(leaves(sym.trip_counts_nonneg(x[k])))
                go(x["body"])
                go(x.get("latch") or [])
            elif e == "if":
                out.extend(leaves(x["cond"]))
                go(x["then"])
                go(x["else"])
            elif e == "inlined":
                go(x["body"])
    go(effs)
    res = []
    for a in out:
        if a in loopvars or a[0] in ("var", "call", "obj", "new") or any(sym.contains(a, lv) for lv in loopvars) or a in res:
            continue
        res.append(a)
    return res


# ---------------------------------------------------------------- integer values
class IntMachine(Memory):
    """Evaluation of an effect tree on concrete integer data (nothing of the library runs: loop descriptors, conditions and value terms
    produced by the symbolic executor are evaluated).  Memory cells hold Python integers; loads of cells nobody wrote come from
    `inputs` (location -> int) or raise NotEvaluable.  Arithmetic follows the library's conventions for torus words: values are
    kept as mathematical integers, and the left operand of >>, &, |, ^, %, / is first reduced to its 32-bit unsigned pattern (casts
    are dropped by the executor; the signedness of right shifts is audited separately, sa/shifts.py).  Scalar locals follow the
    executor's snapshot convention (see PolyState.segment); pointer locals hold locations."""
    M32 = (1 << 32) - 1

    def __init__(self, scalars=None, inputs=None):
        Memory.__init__(self)
        self.scalars = dict(scalars or {})      # term -> int (parameters, fields of parameter objects)
        self.inputs = dict(inputs or {})        # location -> int
        self.live, self.snap = {}, {}

    def segment(self, env=None, loop=None):
        keep = set((loop or {}).get("derived") or ())
        self.snap = {k: (self.snap[k] if k[1] in keep and k in self.snap else v) for k, v in self.live.items()}

    def loc(self, lv, env):
        """location of an lvalue; subscripts and pointer locals are evaluated"""
        t = lv
        while t[0] == "cast":
            t = t[2]
        if t[0] == "idx":
            r, p = self.ptr(t[1], env)
            k = self.ival(t[2], env)
            if k is None:
                raise NotEvaluable("subscript %s" % sym.show(t[2])[:80])
            if p and isinstance(p[-1], int):
                return r, p[:-1] + (p[-1] + k,)
            return r, p + (k,)
        if t[0] == "fld":
            r, p = self.loc(t[1], env)
            return r, p + (t[2],)
        return t, ()

    def ptr(self, p, env):
        """location a pointer VALUE designates (its element 0)"""
        while p[0] == "cast":
            p = p[2]
        if p[0] == "var" and isinstance(self.snap.get(p), tuple) and self.snap[p] and self.snap[p][0] == "loc":
            return self.snap[p][1], self.snap[p][2]
        if p[0] == "addr":
            return self.loc(p[1], env)
        if p[0] in ("fld", "idx"):
            r, path = self.loc(p, env)           # a pointer-typed field / element is identified with the array it points to
            return r, path + (0,)
        return p, (0,)

    def ival(self, t, env):
        while t[0] == "cast":
            t = t[2]
        if t in env and isinstance(env[t], int):
            return env[t]
        if t in self.scalars:
            return self.scalars[t]
        k = t[0]
        if k == "int":
            return t[1]
        if k == "var":
            val = self.snap.get(t)
            return val if isinstance(val, int) else None
        if k in ("idx", "fld"):
            try:
                loc = self.loc(t, env)
            except NotEvaluable:
                return None
            val = Memory.read(self, loc)
            if isinstance(val, int):
                return val
            return self.inputs.get(loc)
        if k == "poly":
            tot = 0
            for mono, c in t[1]:
                val = c
                for a in mono:
                    x = self.ival(a, env)
                    if x is None:
                        return None
                    val *= x
                tot += val
            return tot
        if k == "cond":
            c = self.ival(t[1], env)
            return None if c is None else self.ival(t[2] if c else t[3], env)
        if k == "un":
            x = self.ival(t[2], env)
            return None if x is None else {"!": int(not x), "-": -x, "~": ~x & self.M32}.get(t[1])
        if k == "call" and t[1] == "$loop_end":
            args = [self.ival(a, env) for a in t[2][:3]]
            if None in args:
                return None
            return eval_term(("call", "$loop_end", tuple(("int", a) for a in args) + tuple(t[2][3:])), {})
        if k == "op":
            a, b = self.ival(t[2], env), self.ival(t[3], env)
            if a is None or b is None:
                return None
            op = t[1]
            if op in (">>", "&", "|", "^", "%", "/"):
                a &= self.M32
            try:
                if op in ("<<", ">>") and not 0 <= b < 64:
                    return None
                return int({"<<": lambda: a << b, ">>": lambda: a >> b, "&": lambda: a & b, "|": lambda: a | b, "^": lambda: a ^ b,
                            "%": lambda: a % b, "/": lambda: a // b, "<": lambda: a < b, "<=": lambda: a <= b, ">": lambda: a > b,
                            ">=": lambda: a >= b, "==": lambda: a == b, "!=": lambda: a != b,
                            "&&": lambda: bool(a) and bool(b), "||": lambda: bool(a) or bool(b)}[op]())
            except (KeyError, ZeroDivisionError, ValueError):
                return None
        return None

    def handler(self, on_call=None):
        def h(kind, x, env):
            if kind == "cond":
                c = self.ival(x["cond"], env)
                return None if c is None else bool(c)
            if kind == "local":
                key = ("var", x["name"], x["id"])
                t = x["new"] if isinstance(x.get("new"), tuple) else x.get("val")
                val = self.ival(t, env) if isinstance(t, tuple) else None
                if val is None and isinstance(t, tuple):
                    try:
                        r, p = self.ptr(t, env)
                        val = ("loc", r, p)
                    except NotEvaluable:
                        val = None
                self.live[key] = val
                return None
            if kind == "store":
                val = self.ival(x["val"], env) if isinstance(x.get("val"), tuple) else None
                loc = self.loc(x["lv"], env)
                op = x.get("op") or "="
                if op != "=":
                    old = Memory.read(self, loc)
                    old = old if isinstance(old, int) else self.inputs.get(loc)
                    if old is None or val is None:
                        raise NotEvaluable("update of %s at line %s" % (sym.show(x["lv"])[:60], x.get("l")))
                    fn_ = {"+=": lambda: old + val, "-=": lambda: old - val, "*=": lambda: old * val,
                           "<<=": lambda: old << val if 0 <= val < 64 else None, ">>=": lambda: (old & self.M32) >> val if 0 <= val < 64 else None,
                           "&=": lambda: (old & self.M32) & val, "|=": lambda: old | val, "^=": lambda: old ^ val}.get(op)
                    val = fn_() if fn_ else None
                if val is None:
                    raise NotEvaluable("value %s stored at line %s" % (sym.show(x["val"])[:60] if isinstance(x.get("val"), tuple) else "?", x.get("l")))
                self.write(loc, val)
                return None
            if kind in ("alloc", "delete"):
                return None
            if kind == "call":
                if x.get("noreturn"):
                    return None
                if on_call is not None and on_call(x, env):
                    return None
                raise NotEvaluable("call of %s at line %s" % (x.get("name"), x.get("l")))
            raise NotEvaluable("%s at line %s" % (kind, x.get("l")))
        return h
