"""A11 — written-before-read for storage that is born uninitialised (C16.R7).

Storage born uninitialised: `new T[n]` without initialiser, malloc, stack arrays, and — through their constructors — the
coefficient arrays of the library's ciphertext / polynomial objects (new_LweSample leaves `a`, new_TorusPolynomial leaves
`coefsT`, ... while scalar members are set).  For every such object created in a library function, the first access to
each uninitialised part on every path must be a write.

Per function and pointer parameter a summary gives the FIRST access to every access path below the parameter
(fields traversed, array steps collapsed): 'W' (written before any read) or 'R' (a read may come first).  Summaries are
computed over the ordered effect trees (branches: a part counts as written after an `if` only when both arms wrote it;
loops: the body once, element writes indexed by a loop variable count as writing the array), bottom-up through callees;
functions defined in `.s` files are summarised from their instructions (loads / stores through each argument register).
The analysis is deliberately generous about what counts as a write (ranges are the business of the bounds and
coverage rules): it reports only a definite read of a part nothing has written.
"""
import re

from . import asm, sym
from .effects import fields_of, EXTERNAL_WRITES
from .symexec import Hooks, run_function, flat
from .sym import ZERO

EXTERNAL_READS = {"memcpy": [1], "std::memcpy": [1], "memmove": [1], "std::memmove": [1], "fwrite": [0], "std::fwrite": [0]}
DATA_T = re.compile(r"^(const\s+)?(int|unsigned int|long|unsigned long|double|float|short|char|unsigned char|int32_t|uint32_t|int64_t|uint64_t|"
                    r"std::complex<double>|Torus32)\b")


class InitFlow:
    def __init__(self, v):
        self.v = v
        self.memo = {}
        self.busy = set()
        self.uninit = {}
        self.asm_rw = self._asm_rw()
        self._alias = {}

    # ------------------------------------------------------------------ what is uninitialised at birth
    def uninit_paths(self, rec, depth=0):
        """paths (tuples of field names) below an object of record `rec` that its constructor leaves uninitialised"""
        if rec in self.uninit:
            return self.uninit[rec]
        self.uninit[rec] = set()
        if depth > 4:
            return set()
        v = self.v
        ctors = [f for f in v.defined() if f.get("record") == rec and f.get("kind") == "ctor" and not f.get("implicit")
                 and not f.get("defaulted") and not f.get("deleted") and not f.get("copy")]
        out = set()
        if len(ctors) != 1:
            return out
        eff, st, ex = run_function(v, ctors[0], hooks=Hooks())
        this0 = sym.idx(sym.sym("this"), ZERO)
        written_in_ctor = set()
        for x in flat(eff):
            if x["e"] == "store" and sym.root_of(x["lv"]) == sym.sym("this") and x["lv"][0] == "idx":
                written_in_ctor.add(fields_of(x["lv"]))
        for x in flat(eff):
            if x["e"] != "store" or x["op"] != "=" or x["lv"][0] != "fld" or x["lv"][1] != this0:
                continue
            fname, val = x["lv"][2], x["val"]
            if val[0] == "new" and (fname,) not in written_in_ctor:
                # new T[n]: uninitialised unless T is a class with a constructor (then recurse) -- scalars only here
                if DATA_T.match(str(val[1])):
                    out.add((fname,))
            elif val[0] == "obj":
                m = re.match(r"^new_(\w+?)(_array)?$", str(val[1]))
                if m and m.group(1) in v.records:
                    for q in self.uninit_paths(m.group(1), depth + 1):
                        out.add((fname,) + q)
                elif str(val[1]) in ("malloc", "std::malloc", "fftw_malloc", "aligned_alloc", "_mm_malloc") and (fname,) not in written_in_ctor:
                    out.add((fname,))
            elif val[0] == "addr" or (val[0] == "fld" and val[1] == this0):
                # this->b = &this->a[k]: b aliases (an element of) a
                r = val[1] if val[0] == "addr" else val
                fl = fields_of(r)
                if fl:
                    self._alias[(rec, fname)] = fl[0]
        # arrays created by init_<rec> and handed to the constructor (TGswSample: all_sample = new_TLweSample_array(...))
        ini = v.fn("init_" + rec, required=False)
        if ini is not None:
            p2f = {}
            for x in flat(eff):
                if x["e"] == "store" and x["op"] == "=" and x["lv"][0] == "fld" and x["lv"][1] == this0 and x["val"][0] == "sym":
                    p2f.setdefault(x["val"][1], x["lv"][2])
            ieff, _, _ = run_function(v, ini, hooks=Hooks())
            for x in flat(ieff):
                if x["e"] == "call" and x["name"].startswith(rec + "::"):
                    for k, a in enumerate(x["args"]):
                        if a is not None and a[0] == "obj" and k < len(ctors[0].params):
                            m = re.match(r"^new_(\w+?)(_array)?$", str(a[1]))
                            fname = p2f.get(ctors[0].params[k]["n"])
                            if m and m.group(1) in v.records and fname:
                                for q in self.uninit_paths(m.group(1), depth + 1):
                                    out.add((fname,) + q)
        self.uninit[rec] = out
        return out

    def canon(self, rec, path):
        """apply constructor-established member aliases (TLweSample::b points into a)"""
        if path and (rec, path[0]) in self._alias:
            return (self._alias[(rec, path[0])],) + tuple(path[1:])
        return tuple(path)

    # ------------------------------------------------------------------ assembly functions
    def _asm_rw(self):
        out = {}
        for u in self.v.asm_units:
            text = self.v.prog.asm_text(u)
            for name, items in asm.functions_of(text).items():
                root = {r: i for i, r in enumerate(asm.ARGREGS)}
                reads, writes = set(), set()
                for it in items:
                    if not isinstance(it, asm.Ins):
                        continue
                    args = it.args
                    for j, a in enumerate(args):
                        if a[0] == "mem" and it.op != "leaq":
                            base = asm.SUB.get(a[2], (a[2], 8))[0] if a[2] else None
                            is_store = (j == len(args) - 1) and not it.op.startswith(("cmp", "test")) and it.op != "pushq"
                            if base in root:
                                (writes if is_store else reads).add(root[base])
                    if it.op in ("movq", "mov", "movl", "leaq") and len(args) == 2 and args[1][0] == "reg":
                        dst = asm.SUB.get(args[1][1], (args[1][1], 8))[0]
                        src = None
                        if args[0][0] == "reg":
                            src = asm.SUB.get(args[0][1], (args[0][1], 8))[0]
                        elif args[0][0] == "mem" and args[0][2]:
                            src = asm.SUB.get(args[0][2], (args[0][2], 8))[0]
                        if src in root:
                            root[dst] = root[src]
                        else:
                            root.pop(dst, None)
                    elif it.op == "popq" and args and args[0][0] == "reg":
                        root.pop(args[0][1], None)
                out[name] = (reads, writes)
        return out

    # ------------------------------------------------------------------ per-function first-access summaries
    def summary(self, usr):
        """{param index: {path: 'R' | 'W'}}"""
        if usr in self.memo:
            return self.memo[usr]
        if usr in self.busy or usr not in self.v.defs:
            return None
        self.busy.add(usr)
        f = self.v.defs[usr]
        eff, st, ex = run_function(self.v, f, hooks=Hooks())
        names = [p["n"] for p in f.params]
        roots = {sym.sym(n): i for i, n in enumerate(names) if "*" in f.params[i]["t"] or "&" in f.params[i]["t"]}
        if f.get("record"):
            roots[sym.sym("this")] = "this"
        first = {i: {} for i in roots.values()}
        saved_vs, saved_ne, saved_rr = self._valsets, self._nonempty, self._rk_rec
        prec = {}
        for i, q in enumerate(f.params):
            tq = q["t"].replace("const", "").replace("struct", "").replace("*", "").replace("&", "").strip()
            if tq in self.v.records:
                prec[i] = tq
        if f.get("record"):
            prec["this"] = f.record
        self._valsets, self._nonempty, self._rk_rec = self._pointer_value_sets(eff), {}, prec
        try:
            self._walk(f, eff, roots, first, {}, None)
        finally:
            self._valsets, self._nonempty, self._rk_rec = saved_vs, saved_ne, saved_rr
        self.busy.discard(usr)
        self.memo[usr] = first
        return first

    # state: {(root key, path): True} definitely written ; events appended to first[root][path]
    def _walk(self, f, effs, roots, first, defined, local_events, inloop=()):
        v = self.v
        for x in effs:
            e = x["e"]
            if e == "if":
                self._reads(x["cond"], roots, first, defined, local_events, x["l"], set())
                d1, d2 = dict(defined), dict(defined)
                self._walk(f, x["then"], roots, first, d1, local_events, inloop)
                self._walk(f, x["else"], roots, first, d2, local_events, inloop)
                if x.get("then_status") in ("exit", "return") and x.get("else_status") not in ("exit", "return"):
                    defined.update(d2)
                elif x.get("else_status") in ("exit", "return") and x.get("then_status") not in ("exit", "return"):
                    defined.update(d1)
                elif self._nonempty and x.get("cond") is not None and x["cond"][0] == "op":
                    # `if (n > 0) fill(buf)` for a buffer of n elements: when the test fails the buffer is empty and nothing of it
                    # can be read, so for that buffer the guarded writes count as unconditional
                    c_ = x["cond"]
                    for rk_, sz in self._nonempty.items():
                        pos = (c_[1] in (">", "!=") and c_[2] == sz and c_[3] == ZERO) or (c_[1] == ">=" and c_[2] == sz and c_[3] == sym.I(1)) \
                            or (c_[1] == "<" and c_[3] == sz and c_[2] == ZERO) or (c_[1] == "<=" and c_[3] == sz and c_[2] == sym.I(1))
                        neg = (c_[1] in ("<=", "==") and c_[2] == sz and c_[3] == ZERO) or (c_[1] == "<" and c_[2] == sz and c_[3] == sym.I(1))
                        src = d1 if pos else d2 if neg else None
                        if src is not None:
                            for k in src:
                                if k[0] == rk_:
                                    defined[k] = True
                    for k in d1:
                        if k in d2:
                            defined[k] = True
                elif inloop:
                    # inside a loop a conditional write may have happened in an earlier iteration (ping-pong buffers written only
                    # when a step is taken, read back only when one was): generous, like the loop itself
                    defined.update(d1)
                    defined.update(d2)
                else:
                    for k in d1:
                        if k in d2:
                            defined[k] = True
                continue
            if e in ("loop", "while"):
                d1 = dict(defined)
                lv = x.get("var")
                self._walk(f, x["body"] + (x.get("latch") or []), roots, first, d1, local_events, inloop + ((lv,) if lv is not None else (None,)))
                defined.update(d1)          # generous: what the body writes counts as written after the loop
                continue
            if e == "inlined":
                self._walk(f, x["body"], roots, first, defined, local_events, inloop)
                continue
            if e == "store":
                exact = set()
                val_ = x.get("val")
                if isinstance(val_, tuple) and val_ and val_ in roots and x["lv"][0] == "idx" and \
                        (sym.root_of(x["lv"]) or ("?",))[0] == "var":
                    # the object's address goes into a local table of pointers: later accesses through table[expr] cannot be
                    # attributed, so the object gets the benefit of the doubt from here on (no refutation)
                    self._event(roots[val_], (), "W", first, defined, local_events, x["l"], "address stored in a local pointer table", prefix=True)
                self._reads(x["val"], roots, first, defined, local_events, x["l"], exact)
                self._reads_index(x["lv"], roots, first, defined, local_events, x["l"])
                if x["op"] != "=":
                    self._reads(x["lv"], roots, first, defined, local_events, x["l"], exact, whole=True)
                self._write(x["lv"], roots, first, defined, inloop, x["l"])
                continue
            if e == "local":
                self._reads(x.get("val"), roots, first, defined, local_events, x["l"], set())
                continue
            if e == "return":
                self._reads(x.get("val"), roots, first, defined, local_events, x["l"], set())
                continue
            if e == "asm":
                # inline asm: operands it stores through count as written; loads are not tracked (generous)
                for c_, t in x.get("outs", []):
                    pass
                for c_, t in x.get("ins", []):
                    if t is not None and sym.root_of(t) in roots and t[0] != "sym":
                        self._write(sym.idx(t, ZERO) if t[0] != "idx" else t, roots, first, defined, inloop + (None,), x["l"], force=True)
                continue
            if e == "call":
                args = x.get("args") or []
                # a pointer variable that is reassigned in a loop (ping-pong buffers) may designate several objects
                may = {}
                for pi_, a in enumerate(args):
                    cands_ = []
                    if isinstance(a, tuple) and a and a[0] == "var" and len(a) > 2:
                        cands_ = list(self._valsets.get(a[2], ()))
                    elif isinstance(a, tuple) and a and a[0] == "cond":
                        stack_ = [a]
                        while stack_:
                            t_ = stack_.pop()
                            if t_[0] == "cond":
                                stack_ += [t_[2], t_[3]]
                            elif t_[0] == "var" and len(t_) > 2:
                                cands_ += list(self._valsets.get(t_[2], ()))
                            else:
                                cands_.append(t_)
                    cands_ = [o_ for o_ in cands_ if o_ in roots]
                    if cands_:
                        may[pi_] = cands_
                if may and local_events is not None:
                    # objects created here: the callee may write them -- benefit of the doubt (no refutation)
                    for pi_, cands_ in may.items():
                        for obj_ in cands_:
                            self._event(roots[obj_], (), "W", first, defined, local_events, x["l"],
                                        "through pointer expression %s" % (sym.show(args[pi_])[:40],), prefix=True)
                elif may:
                    # summary of a function over its parameters: what the callee reads first through such a pointer is a possible
                    # first read of the parameter (what it writes is only a possible write and defines nothing)
                    g_ = v.defs.get(x.get("usr"))
                    sub_ = self.summary(g_.usr) if g_ is not None else None
                    for pi_, cands_ in may.items():
                        for q, kind in sorted(((sub_ or {}).get(pi_) or {}).items()):
                            if kind == "R":
                                for obj_ in cands_:
                                    self._event(roots[obj_], tuple(q), "R", first, defined, local_events, x["l"], "via %s through a pointer variable" % x["name"])
                for a in args:
                    # scalar uses inside argument expressions (a[i] passed by value)
                    if a is not None and not self._is_pointer_arg(a):
                        self._reads(a, roots, first, defined, local_events, x["l"], set())
                g = v.defs.get(x.get("usr"))
                name = x["name"]
                if g is not None:
                    sub = self.summary(g.usr)
                    this_t = x.get("this")
                    binds = [(i, a) for i, a in enumerate(args)]
                    if this_t is not None:
                        binds.append(("this", this_t))
                    for pi, a in binds:
                        if a is None:
                            continue
                        rk, base = self._root_path(a, roots)
                        if rk is None:
                            continue
                        if sub is None:
                            continue
                        # reads first, then writes (a callee that reads then writes the same path is 'R')
                        for q, kind in sorted((sub.get(pi) or {}).items()):
                            full = base + q
                            if kind == "R":
                                self._event(rk, full, "R", first, defined, local_events, x["l"], "via %s" % name)
                        for q, kind in sorted((sub.get(pi) or {}).items()):
                            full = base + q
                            if kind == "W":
                                self._event(rk, full, "W", first, defined, local_events, x["l"], "via %s" % name)
                    continue
                # functions defined in assembly
                if name in self.asm_rw:
                    reads, writes = self.asm_rw[name]
                    for pi, a in enumerate(args):
                        if a is None:
                            continue
                        rk, base = self._root_path(a, roots)
                        if rk is None:
                            continue
                        if pi in reads:
                            self._event(rk, base, "R", first, defined, local_events, x["l"], "via %s (assembly)" % name)
                        if pi in writes:
                            self._event(rk, base, "W", first, defined, local_events, x["l"], "via %s (assembly)" % name)
                    continue
                for pi in EXTERNAL_READS.get(name, []):
                    if pi < len(args) and args[pi] is not None:
                        rk, base = self._root_path(args[pi], roots)
                        if rk is not None:
                            self._event(rk, base, "R", first, defined, local_events, x["l"], "via %s" % name)
                for pi in EXTERNAL_WRITES.get(name, []):
                    if pi < len(args) and args[pi] is not None:
                        rk, base = self._root_path(args[pi], roots)
                        if rk is not None:
                            self._event(rk, base, "W", first, defined, local_events, x["l"], "via %s" % name)
                # any other external callee given a pointer to the object: benefit of the doubt, counts as written
                if name not in EXTERNAL_READS and name not in EXTERNAL_WRITES:
                    for a in args:
                        if a is not None and self._is_pointer_arg(a):
                            rk, base = self._root_path(a, roots)
                            if rk is not None:
                                self._event(rk, base, "W", first, defined, local_events, x["l"], "via external %s" % name, prefix=True)

    def _is_pointer_arg(self, a):
        return a[0] in ("sym", "addr", "obj", "new", "fld", "var") or (a[0] == "idx" and False) or a[0] == "cast"

    def _root_path(self, t, roots):
        while t[0] == "cast":
            t = t[2]
        r = sym.root_of(t)
        if r is None or r not in roots:
            return None, None
        return roots[r], tuple(fields_of(t))

    def _event(self, rk, path, kind, first, defined, local_events, line, how, prefix=False):
        rec_ = self._rk_rec.get(rk)
        if rec_:
            path = self.canon(rec_, path)      # b->coefsT and a->coefsT of a TLWE sample are the same storage
        key = (rk, path)
        if kind == "W":
            defined[key] = True
            if prefix:
                defined[(rk, path, "prefix")] = True
            first[rk].setdefault(path, "W")
            return
        if self._is_defined(rk, path, defined):
            return
        if first[rk].get(path) is None:
            first[rk][path] = "R"
        if local_events is not None:
            local_events.append((rk, path, line, how))

    def _is_defined(self, rk, path, defined):
        if defined.get((rk, path)):
            return True
        # a write of a shorter path through an opaque callee covers everything below it
        for k in range(len(path) + 1):
            if defined.get((rk, path[:k], "prefix")):
                return True
        return False

    def _write(self, lv, roots, first, defined, inloop, line, force=False):
        rk, path = self._root_path(lv, roots)
        if rk is None:
            return
        if not path and lv[0] != "idx":
            return
        # an array element written at an index that involves a loop variable counts as the array being written;
        # a scalar member counts; a single constant element does not (generous otherwise)
        is_elem = lv[0] == "idx"
        if is_elem and not force:
            idx_atoms = sym.atoms(lv[2]) if isinstance(lv[2], tuple) else set()
            in_loop = any(l is None or l in idx_atoms for l in inloop)
            outer = lv[1]
            deeper = any(st[0] == "idx" and any(l in sym.atoms(st[2]) for l in inloop if l is not None) for st in sym.subterms(outer))
            if not (in_loop or deeper):
                defined[(rk, path, "elem", lv)] = True
                first[rk].setdefault(path, "W")
                # constant subscripts: the array counts as written once every element of a known constant extent was
                # written this way; with an unknown extent a constant-index write is taken as an initialisation (generous)
                ci = sym.const_value(lv[2])
                ext = getattr(self, "_extents", {}).get(rk)
                if ci is not None and ext is not None and not path:
                    got = defined.setdefault((rk, path, "consts"), set())
                    got.add(ci)
                    if got >= set(range(ext)):
                        defined[(rk, path)] = True
                elif ext is None:
                    defined[(rk, path)] = True
                return
        defined[(rk, path)] = True
        first[rk].setdefault(path, "W")

    def _reads_index(self, lv, roots, first, defined, local_events, line):
        # loads inside the subscripts of an lvalue
        t = lv
        while t[0] in ("idx", "fld", "addr", "cast"):
            if t[0] == "idx":
                self._reads(t[2], roots, first, defined, local_events, line, set())
            t = t[1] if t[0] != "cast" else t[2]

    def _reads(self, t, roots, first, defined, local_events, line, exact, whole=False):
        if t is None or not isinstance(t, tuple):
            return
        terms = [t] if whole else list(sym.loaded_subterms(t))
        for st in terms:
            if st[0] != "idx" and not (st[0] == "fld" and False):
                continue
            if st[0] == "idx" and st[1][0] not in ("fld", "sym", "addr", "idx"):
                continue
            rk, path = self._root_path(st, roots)
            if rk is None:
                continue
            if not path and not (st[0] == "idx" and st[1][0] in ("sym", "obj", "new", "var", "cast")):
                continue
            if defined.get((rk, path, "elem", st)):
                continue
            self._event(rk, path, "R", first, defined, local_events, line, "element %s" % sym.show(st)[:50])

    # ------------------------------------------------------------------ locals of one function
    _valsets = {}
    _nonempty = {}
    _rk_rec = {}

    @staticmethod
    def _pointer_value_sets(eff):
        """{local id: set of terms ever assigned to it}, closed under copies between locals"""
        direct = {}

        def alts(t):
            if isinstance(t, tuple) and t and t[0] == "cond":
                return alts(t[2]) | alts(t[3])           # c ? p : q may be either
            if isinstance(t, tuple) and t and t[0] == "cast":
                return alts(t[2])
            return {t}
        for x in flat(eff):
            if x["e"] == "local" and x.get("op") in ("decl", "=") and isinstance(x.get("new", x.get("val")), tuple):
                direct.setdefault(x["id"], set()).update(alts(x.get("new", x.get("val"))))
            elif x["e"] == "store" and x.get("op") == "=" and x["lv"][0] == "var" and len(x["lv"]) > 2 and isinstance(x.get("val"), tuple):
                # a local kept in memory (its address is taken, e.g. by std::swap)
                direct.setdefault(x["lv"][2], set()).update(alts(x["val"]))
        changed = True
        while changed:
            changed = False
            for i, vals in direct.items():
                for t in list(vals):
                    if t[0] == "var" and len(t) > 2 and t[2] in direct and not direct[t[2]] <= vals:
                        vals |= direct[t[2]]
                        changed = True
        return direct

    def local_objects(self, f):
        """-> list of (object term, record or None, description, line, uninitialised paths) created in f, and the R events"""
        v = self.v
        eff, st, ex = run_function(v, f, hooks=Hooks())
        objs = {}
        sizes_ = {}
        for x in flat(eff):
            if x["e"] == "call" and x.get("ret") is not None and x["ret"][0] == "obj":
                m = re.match(r"^new_(\w+?)(_array)?$", x["name"])
                if m and m.group(1) in v.records:
                    up = self.uninit_paths(m.group(1))
                    if up:
                        objs[x["ret"]] = (m.group(1), "%s(...)" % x["name"], x["l"], {self.canon(m.group(1), p) for p in up})
                elif x["name"] in ("malloc", "std::malloc", "fftw_malloc", "aligned_alloc", "_mm_malloc"):
                    objs[x["ret"]] = (None, "%s(...)" % x["name"], x["l"], {()})
            elif x["e"] == "alloc" and x["how"] == "new[]" and DATA_T.match(str(x.get("t", ""))) and not x.get("init"):
                objs[x["obj"]] = (None, "new %s[...]" % x.get("t"), x["l"], {()})
                sizes_[x["obj"]] = x.get("size")
            elif x["e"] == "localarray" and DATA_T.match(str(x.get("t", ""))) and not x.get("init"):
                objs[x["lv"]] = (None, "%s[...]" % x.get("t"), x["l"], {()})
        if not objs:
            return [], []
        roots = {o: ("obj", k) for k, o in enumerate(objs)}
        first = {rk: {} for rk in roots.values()}
        events = []
        self._rk_rec = {roots[o]: info[0] for o, info in objs.items() if info[0]}
        self._valsets = self._pointer_value_sets(eff)
        self._nonempty = {roots[o]: sz for o, sz in sizes_.items() if sz is not None and o in roots}
        self._extents = {}
        for x in flat(eff):
            if x["e"] == "localarray" and x["lv"] in roots and sym.const_value(x.get("extent")) is not None:
                self._extents[roots[x["lv"]]] = sym.const_value(x["extent"])
        self._walk(f, eff, roots, first, {}, events)
        self._extents = {}
        olist = list(objs.items())
        out_events = []
        for rk, path, line, how in events:
            o, (rec, desc, oline, up) = olist[rk[1]]
            cp = self.canon(rec, path) if rec else tuple(path)
            if any(cp[:len(u)] == u for u in up):
                out_events.append((o, desc, oline, cp, line, how))
        return [(o, rec, desc, line, up) for o, (rec, desc, line, up) in olist], out_events
