"""A4 — negacyclic piecewise-affine map check.

Given store pieces  out[d(i)] (=|+=|-=) sum_k s_k * in[g_k(i)]  over loops and guards, prove for the term selected
by the rule:
  (i)   the pieces' ranges partition [0,N) (per guard alternative),
  (ii)  g = sigma*i + shift + c*N  for an integer constant c, and 0 <= g <= N-1 on the piece's range,
  (iii) the sign of the term is (-1)^c.
"""
from . import sym, affine
from .sym import I, ZERO


def linear_terms(val):
    """value term -> list of (coefficient int, atom) for a linear combination of atoms; None if not linear"""
    out = []
    for m, c in sym.poly_items(val):
        if len(m) != 1:
            return None
        out.append((c, m[0]))
    return out


def match_index(g, i, sigma, shift, N):
    """c such that g == sigma*i + shift + c*N, or None"""
    rest = sym.sub(g, sym.add(sym.mul(I(sigma), i), shift))
    if rest == ZERO:
        return 0
    lin = sym.linear_in(rest, N)
    if lin is None:
        return None
    a, b = lin
    c = sym.const_value(a)
    if c is None or b != ZERO:
        return None
    return c


def partition_ok(ranges, N, facts):
    """ranges [(lo, hi_exclusive)] cover [0,N) exactly: after sorting by symbolic order, lo_0 = 0, hi_k = lo_{k+1}, hi_last = N.
    Empty ranges are fine.  Tries both orders for two pieces, general chaining for more."""
    rs = list(ranges)
    # chain: start from the piece whose lo == 0
    cur = ZERO
    used = set()
    for _ in range(len(rs)):
        nxt = next((k for k, (lo, hi) in enumerate(rs) if k not in used and lo == cur), None)
        if nxt is None:
            return False, "no piece starts at %s" % sym.show(cur)
        used.add(nxt)
        lo, hi = rs[nxt]
        # each piece must be a (possibly empty) forward range: hi - lo >= 0
        if not affine.prove_nonneg(sym.sub(hi, lo), facts):
            return False, "piece [%s,%s) may be reversed" % (sym.show(lo), sym.show(hi))
        cur = hi
    if cur != N:
        return False, "pieces end at %s, not at %s" % (sym.show(cur), sym.show(N))
    return True, "ranges chain 0 .. %s" % sym.show(N)


def _piece_terms(p):
    yield p["val"]
    yield p["lv"]
    for l in p["loops"]:
        yield l["lo"]
        yield l["hi"]
    for g in p["guards"]:
        yield g


def _rewrite_piece(p, mapping):
    q = dict(p)
    q["val"] = sym.rewrite(p["val"], mapping)
    q["lv"] = sym.rewrite(p["lv"], mapping)
    q["loops"] = [dict(l, lo=sym.rewrite(l["lo"], mapping), hi=sym.rewrite(l["hi"], mapping)) for l in p["loops"]]
    q["guards"] = [sym.rewrite(g, mapping) for g in p["guards"]]
    return q


def case_split(pieces, facts, max_conds=3):
    """Pieces whose terms contain conditional values (c ? x : y) or remainders x % m are split into the cases of the
    conditions; in each case the conditionals are replaced by the selected branch, the condition joins the facts, and
    x % m is replaced by x - q*m for the q in {0, 1, -1} with 0 <= x - q*m <= m - 1 provable from the facts.
    Yields (case description, facts, pieces).  Pieces without such terms give one case."""
    import itertools
    conds = []
    for p in pieces:
        for t in _piece_terms(p):
            for st in sym.subterms(t):
                if st[0] == "cond" and st[1] not in conds:
                    conds.append(st[1])
    loopvars = {l["var"] for p in pieces for l in p["loops"] if "var" in l}
    varying = [c for c in conds if any(a in loopvars or a[0] in ("var", "unk") for a in sym.atoms(c)) or
               any(st[0] == "unk" or st in loopvars for st in sym.subterms(c))]
    if len(conds) > max_conds or varying:
        # a condition on a loop variable or on a value that changes from one iteration to the next is not a case of the call
        yield None, facts, pieces
        return
    for choice in itertools.product((True, False), repeat=len(conds)):
        f2 = list(facts)
        desc = []
        for c, val in zip(conds, choice):
            f2 += affine.guard_constraints([c if val else sym.unop("!", c)])
            desc.append(("%s" if val else "!(%s)") % sym.show(c))
        if conds and affine.infeasible(f2):
            continue            # contradictory combination of conditions: not a case
        truth = dict(zip(conds, choice))

        def select(t):
            """every conditional term whose condition is one of the case conditions is replaced by the branch the case takes
            (recursively: conditionals nest when a sign and a shift are both written with ?:)"""
            if not isinstance(t, tuple) or not t:
                return t
            if not isinstance(t[0], str):
                return tuple(select(x) for x in t)
            if t[0] == "cond" and t[1] in truth:
                return select(t[2] if truth[t[1]] else t[3])
            if t[0] in ("int", "float", "str", "sym", "var", "glob", "unk"):
                return t
            if t[0] == "poly":
                r = ZERO
                for m, c in t[1]:
                    prod = I(c)
                    for x in m:
                        prod = sym.mul(prod, select(x))
                    r = sym.add(r, prod)
                return r
            if t[0] == "idx":
                return sym.idx(select(t[1]), select(t[2]))
            if t[0] == "fld":
                return sym.fld(select(t[1]), t[2])
            if t[0] == "addr":
                return sym.addr(select(t[1]))
            if t[0] == "op":
                return sym.binop(t[1], select(t[2]), select(t[3]))
            if t[0] == "call":
                return ("call", t[1], tuple(select(x) for x in t[2]))
            return tuple(select(x) if isinstance(x, tuple) and x and isinstance(x[0], str) else x for x in t)

        def sel_piece(p):
            q = dict(p)
            q["val"] = select(p["val"])
            q["lv"] = select(p["lv"])
            q["loops"] = [dict(l, lo=select(l["lo"]), hi=select(l["hi"])) for l in p["loops"]]
            q["guards"] = [select(g) for g in p["guards"]]
            return q
        ps2 = [sel_piece(p) for p in pieces] if conds else list(pieces)
        # the end value of a counted loop over [0, X) is X when X >= 0 follows from the facts of the case
        ends = {}
        for p in ps2:
            for t in _piece_terms(p):
                for st in sym.subterms(t):
                    if st[0] == "call" and st[1] == "$loop_end" and st not in ends and st[2][0] == ZERO and st[2][2] == I(1) \
                            and st[2][3] == I(0) and affine.prove_nonneg(st[2][1], f2):
                        ends[st] = st[2][1]
        if ends:
            ps2 = [_rewrite_piece(p, ends) for p in ps2]
        if conds:
            # statements whose guards contradict the case are not executed in it
            ps2 = [p for p in ps2 if not (p["guards"] and affine.infeasible(f2 + affine.guard_constraints(p["guards"])))]
        mods = {}
        for p in ps2:
            for t in _piece_terms(p):
                for st in sym.subterms(t):
                    if st[0] == "op" and st[1] == "%" and st not in mods:
                        x, m = st[2], st[3]
                        for q in (0, 1, -1):
                            r = sym.sub(x, sym.mul(I(q), m))
                            if affine.prove_nonneg(r, f2) and affine.prove_nonneg(sym.sub(sym.sub(m, I(1)), r), f2):
                                mods[st] = r
                                break
        if mods:
            ps2 = [_rewrite_piece(p, mods) for p in ps2]
        yield " and ".join(desc), f2, ps2


def ascending_range(lp):
    """(lo, hi exclusive) of the values a unit-stride counted loop visits, whichever direction it runs; None otherwise"""
    st = sym.const_value(lp["step"])
    if st == 1 and lp["cmp"] in ("<", "<="):
        return lp["lo"], lp["hi"] if lp["cmp"] == "<" else sym.add(lp["hi"], I(1))
    if st == -1 and lp["cmp"] in (">", ">="):
        return (sym.add(lp["hi"], I(1)) if lp["cmp"] == ">" else lp["hi"]), sym.add(lp["lo"], I(1))
    return None


def normalise_dest(p, out_array):
    """Re-parameterise a store  out[d(m)] = f(m), m in a unit-stride range, d = +/-m + c,  by its destination index:
    out[i] = f(m(i)) for i in the image range (ascending).  The statements of such a loop write distinct elements, so
    the map it computes does not depend on the order of the iterations (the caller separately requires that input and
    output do not overlap, or checks the aliasing rule)."""
    lp = p["loops"][-1]
    m = lp["var"]
    lv = p["lv"]
    rng = ascending_range(lp)
    if lv[0] == "idx" and lv[1] == out_array and rng is None and lv[2] != m and sym.const_value(lp["step"]) not in (None, 0) \
            and sym.const_value(lp["step"]) > 0 and lp["cmp"] in ("<", "<="):
        # a strided ascending loop writing out[m + c]: shift the loop by c
        lin = sym.linear_in(lv[2], m)
        if lin is not None and lin[0] == I(1) and not sym.contains(lin[1], m):
            c = lin[1]
            i2 = sym.sym(m[1] + "'")
            q = _rewrite_piece(p, {m: sym.sub(i2, c)})
            q["loops"] = list(q["loops"][:-1]) + [dict(lp, var=i2, lo=sym.add(lp["lo"], c), hi=sym.add(lp["hi"], c), reparameterised=sym.show(m))]
            q["lv"] = sym.idx(out_array, i2)
            return q
        return p
    if lv[0] != "idx" or lv[1] != out_array or rng is None:
        return p
    lo, hi = rng
    if lv[2] == m and sym.const_value(lp["step"]) == 1:
        return p
    lin = sym.linear_in(lv[2], m)
    if lin is None or lin[0] not in (I(1), I(-1)) or sym.contains(lin[1], m):
        return p
    c = lin[1]
    i2 = sym.sym(m[1] + "'")
    if lin[0] == I(1):
        m_of_i, lo2, hi2 = sym.sub(i2, c), sym.add(lo, c), sym.add(hi, c)
    else:
        m_of_i, lo2, hi2 = sym.sub(c, i2), sym.add(sym.sub(c, hi), I(1)), sym.add(sym.sub(c, lo), I(1))
    q = _rewrite_piece(p, {m: m_of_i})
    q["loops"] = list(q["loops"][:-1]) + [dict(lp, var=i2, lo=lo2, hi=hi2, cmp="<", step=I(1), reparameterised=sym.show(m))]
    q["lv"] = sym.idx(out_array, i2)
    return q


def check_map_cases(pieces, out_array, in_array, N, sigma, shift, facts, extra_terms=(), want_op="="):
    """check_map over every case of case_split; -> (True | False | None, detail, infos): None = shape not decidable"""
    infos_all, details = [], []
    for desc, f2, ps2 in case_split(pieces, facts):
        ok, detail, infos = check_map(ps2, out_array, in_array, N, sigma, shift, f2, extra_terms, want_op)
        infos_all += infos
        if ok is not True:
            return ok, (("in case %s: " % desc) if desc else "") + detail, infos_all
        details.append(((desc + ": ") if desc else "") + detail)
    return True, "; ".join(details), infos_all


def check_map(pieces, out_array, in_array, N, sigma, shift, facts, extra_terms=(), want_op="="):
    """pieces: store pieces (one loop each, relative to the caller-selected loop) writing out_array[i].
    Returns (ok, detail, per-piece info)."""
    infos = []
    by_guard = {}
    for p in pieces:
        p = normalise_dest(p, out_array)
        lp = p["loops"][-1]
        i = lp["var"]
        if p["lv"] != sym.idx(out_array, i):
            return False, "destination %s is not %s[%s]" % (sym.show(p["lv"]), sym.show(out_array), sym.show(i)), infos
        if p["op"] != want_op:
            return False, "operator %s where %s is expected (line %s)" % (p["op"], want_op, p["line"]), infos
        lt = linear_terms(p["val"])
        if lt is None:
            return None, "value %s is not a linear combination of array elements" % sym.show(p["val"]), infos
        main = [(c, a) for c, a in lt if a[0] == "idx" and a[1] == in_array and a[2] != i]
        same = [(c, a) for c, a in lt if a[0] == "idx" and a[1] == in_array and a[2] == i]
        other = [(c, a) for c, a in lt if not (a[0] == "idx" and a[1] == in_array)]
        if other:
            return None, "unexpected term %s" % sym.show(other[0][1]), infos
        if shift == ZERO and sigma == 1 and not main and same:
            main, same = same, []
        want_same = sum(c for c, kind in extra_terms if kind == "same")
        if sum(c for c, _ in same) != want_same:
            return False, "identity term coefficient %s, expected %s (line %s)" % (sum(c for c, _ in same), want_same, p["line"]), infos
        if len(main) != 1:
            return False, "expected exactly one shifted term, found %d (line %s)" % (len(main), p["line"]), infos
        coef, atom = main[0]
        g = atom[2]
        c = match_index(g, i, sigma, shift, N)
        if c is None:
            return False, "source index %s is not %s%s + %s + c*N (line %s)" % (
                sym.show(g), "-" if sigma < 0 else "", sym.show(i), sym.show(shift), p["line"]), infos
        want_sign = -1 if c % 2 else 1
        if coef != want_sign:
            return False, "source index %s wraps %d time(s) around N: coefficient must be %+d, found %+d (line %s)" % (
                sym.show(g), c, want_sign, coef, p["line"]), infos
        f2 = facts + affine.loop_constraints([lp]) + affine.guard_constraints(p["guards"])
        if not affine.prove_nonneg(g, f2):
            return False, "source index %s may be negative on [%s,%s) (line %s)" % (sym.show(g), sym.show(lp["lo"]), sym.show(lp["hi"]), p["line"]), infos
        if not affine.prove_nonneg(sym.sub(sym.sub(N, I(1)), g), f2):
            return False, "source index %s may exceed N-1 on [%s,%s) (line %s)" % (sym.show(g), sym.show(lp["lo"]), sym.show(lp["hi"]), p["line"]), infos
        hi = lp["hi"] if lp["cmp"] == "<" else sym.add(lp["hi"], I(1)) if lp["cmp"] == "<=" else None
        if hi is None or sym.const_value(lp["step"]) != 1:
            return None, "loop is not a unit-stride ascending range (line %s)" % p["line"], infos
        gk = tuple(p["guards"])
        by_guard.setdefault(gk, []).append((lp["lo"], hi))
        infos.append({"line": p["line"], "range": "[%s,%s)" % (sym.show(lp["lo"]), sym.show(hi)), "src": sym.show(g), "wraps": c,
                      "sign": coef, "guard": [sym.show(x) for x in p["guards"]]})
    for gk, ranges in by_guard.items():
        f2 = facts + affine.guard_constraints(list(gk))
        ok, why = partition_ok(ranges, N, f2)
        if not ok:
            return False, "under %s: %s" % ([sym.show(x) for x in gk], why), infos
    return True, "%d pieces in %d guard alternative(s): ranges partition [0,N), indices in range, signs = (-1)^wraps" % (
        len(pieces), len(by_guard)), infos
