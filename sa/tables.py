"""A11 -- pointer tables built by constructors and init functions.

A table statement has the form  A[e] = &B[f]  where A and B are arrays reached from the object under construction
(fields of `this` / of the object an init_ function receives), written with computed indices or with walking pointers,
in one loop or in a fused nest, directly into the field or into a local that is stored into the field afterwards.
`normalised(v, fn, obj)` brings the statements of fn to one vocabulary: local allocations are named by the field they end
up in, fields read back are replaced by the value fn stored into them, parameters copied into fields are named by the
field, trip counts of the function's own loops are its dimensions (>= 0).  `table(ps, obj, A)` then decides the stride:
f == c * e identically.  `visited(sts, env)` enumerates the indices e for concrete dimensions.
"""
from . import sym, summ, bounds, concrete
from .sym import I, ZERO


def normalised(v, fn, obj):
    """-> (pieces, field values {field lvalue: stored term}) with obj = sym of the object (`this` or a parameter)"""
    ps, _ = summ.pieces(v, fn, hooks=summ.LOCAL_HELPERS)
    o0 = sym.idx(obj, ZERO)
    final = {}
    for p in ps:
        if p["kind"] == "store" and not p["loops"] and not p["guards"] and p["op"] == "=" and p["lv"][0] == "fld" and p["lv"][1] == o0:
            final[p["lv"]] = p["val"]
    # a constructor run on the object (placement new in an init_ function): its field initialisations, with its parameters
    # replaced by the arguments of the call
    for p in ps:
        if p["kind"] != "call" or not p.get("eff"):
            continue
        x = p["eff"]
        callee = v.defs.get(x.get("usr"))
        if callee is None or callee.get("kind") != "ctor" or x.get("this") != obj or p["loops"] or p["guards"]:
            continue
        cps, _ = summ.pieces(v, callee, hooks=summ.LOCAL_HELPERS)
        cthis = sym.idx(sym.sym("this"), ZERO)
        amap = {sym.sym(q["n"]): a for q, a in zip(callee.params, x["args"]) if a is not None}
        for cp in cps:
            if cp["kind"] == "store" and not cp["loops"] and not cp["guards"] and cp["op"] == "=" and cp["lv"][0] == "fld" and cp["lv"][1] == cthis:
                final[sym.fld(o0, cp["lv"][2])] = sym.subst(cp["val"], amap)
    # local allocations and parameters that are stored into a field are named by the field
    rename = {}
    ptr_params = {sym.sym(q["n"]) for q in fn.params if q["t"].replace("const", "").strip().endswith("*")}
    for lv, val in final.items():
        if isinstance(val, tuple) and val and (val[0] in ("new", "obj") or val in ptr_params) and val not in rename and val != obj:
            rename[val] = lv
    # scalar fields read back are the values stored into them
    f2v = {lv: val for lv, val in final.items() if isinstance(val, tuple) and val and val[0] in ("sym", "op", "poly", "int") and val not in rename}

    def norm(t):
        if not isinstance(t, tuple):
            return t
        t = sym.subst(t, rename)
        t = sym.subst(sym.subst(t, f2v), f2v)
        return sym.trip_counts_nonneg(t)
    out = []
    for p in ps:
        q = dict(p)
        for k in ("lv", "val"):
            if isinstance(q.get(k), tuple):
                q[k] = norm(q[k])
        if q.get("args"):
            q["args"] = [norm(a) if isinstance(a, tuple) else a for a in q["args"]]
        q["loops"] = [dict(l, lo=norm(l["lo"]), hi=norm(l["hi"])) if "var" in l else l for l in p["loops"]]
        out.append(q)
    return out, {lv: norm(val) for lv, val in final.items()}, norm


def table(ps, obj, A):
    """statements filling obj->A -> (B field name, stride term, statements) or (None, reason, statements)"""
    o0 = sym.idx(obj, ZERO)
    arr = sym.fld(o0, A)
    sts = [p for p in ps if p["kind"] == "store" and p["loops"] and p["lv"][0] == "idx" and p["lv"][1] == arr and p["op"] == "="]
    if not sts:
        return None, "no statement fills the table %s" % A, []
    B = stride = None
    for p in sts:
        e_ = p["lv"][2]
        base, off = bounds.split_base_offset(p["val"])
        if base is None or base[0] != "fld" or base[1] != o0:
            return None, "%s[%s] = %s does not point into an array of the same object" % (A, sym.show(e_), sym.show(p["val"])[:60]), sts
        pv = p["loops"][-1]["var"]
        le, lf = sym.linear_in(e_, pv), sym.linear_in(off, pv)
        if le is None or lf is None or sym.const_value(le[0]) not in (1, -1):
            return None, "%s[%s]: index not linear in the innermost loop variable" % (A, sym.show(e_)), sts
        c = lf[0] if sym.const_value(le[0]) == 1 else sym.neg(lf[0])
        if sym.sub(off, sym.mul(c, e_)) != ZERO:
            return None, "%s[%s] = %s + %s: the offset is not a constant multiple of the index" % (A, sym.show(e_), base[2], sym.show(off)), sts
        if B is not None and (B, stride) != (base[2], c):
            return None, "the statements filling %s disagree (%s+%s*e / %s+%s*e)" % (A, B, sym.show(stride), base[2], sym.show(c)), sts
        B, stride = base[2], c
    return B, stride, sts


def visited(sts, env):
    """sorted list of the table indices the statements write for concrete dimensions (concrete.NotEvaluable if not computable)"""
    xs = []
    for p in sts:
        for e2 in concrete.iterate(p["loops"], env):
            ok = True
            for g in p["guards"]:
                gv = concrete.eval_term(g, e2)
                if gv is None:
                    raise concrete.NotEvaluable("guard %s" % sym.show(g))
                ok = ok and bool(gv)
            if not ok:
                continue
            x = concrete.eval_term(p["lv"][2], e2)
            if x is None:
                raise concrete.NotEvaluable("table index %s" % sym.show(p["lv"][2]))
            xs.append(x)
    return sorted(xs)
