"""Standard algorithms over raw pointers written back as the loops they stand for, on the statement trees, before any analysis.

    std::inner_product(f1, l1, f2, init)              T acc = init; for (u = 0; u < l1 - f1; ++u) acc += f1[u] * f2[u];     value acc
    std::accumulate(f, l, init)                       T acc = init; for (...) acc += f[u];                                   value acc
    std::transform(f, l, out, std::negate<T>())       for (...) out[u] = -f[u];
    std::transform(f1, l1, f2, out, std::plus<T>())   for (...) out[u] = f1[u] + f2[u];       (minus, multiplies alike)

Only calls whose iterator arguments are raw pointers and free of calls, in a statement position where evaluating the algorithm first
does not reorder side effects (an expression statement that is the call; the initialiser of a declaration, the right-hand side of an
assignment or a returned expression with no other call in the statement).  Everything else is left as it is (an unknown call for the
analyses).  The pointer arguments are bound to fresh locals first, so each is evaluated once, as in the call.  The loops are ordinary
`for` nodes: every analysis (executor, type audits, shift audit) sees them like hand-written code.  Algorithms taking a closure are
handled by the executor (sa/symexec.py), which has the closure's body."""


def walk(node):
    """pre-order walk over every dict node of a statement / expression tree"""
    stack = [node]
    while stack:
        n = stack.pop()
        if isinstance(n, dict):
            yield n
            for v in reversed(list(n.values())):
                if isinstance(v, (dict, list)):
                    stack.append(v)
        elif isinstance(n, list):
            for v in reversed(n):
                if isinstance(v, (dict, list)):
                    stack.append(v)


_FUNCTOR = {"std::plus<": ("bin", "+"), "std::minus<": ("bin", "-"), "std::multiplies<": ("bin", "*"), "std::negate<": ("un", "-")}
_NAMES = ("std::inner_product", "std::accumulate", "std::transform")
_CALLS = ("call", "mcall", "opcall", "construct")
_serial = [50_000_000]


def _fresh():
    _serial[0] += 1
    return _serial[0]


def _is_ptr(t):
    t = (t or "").replace("__restrict", "").strip()
    while t.endswith("const"):
        t = t[:-5].strip()
    return t.endswith("*")


def _elem_type(t):
    t = (t or "").replace("__restrict", "").strip()
    while t.endswith("const"):
        t = t[:-5].strip()
    return t[:-1].strip() if t.endswith("*") else "int"


def _pure(n):
    return not any(x.get("k") in _CALLS or x.get("k") in ("assign",) or (x.get("k") == "un" and x.get("op") in ("++", "--")) for x in walk(n))


def _strip(e):
    while isinstance(e, dict) and e.get("k") in ("cast", "paren") and isinstance(e.get("a"), dict):
        e = e["a"]
    return e


def _functor(node):
    n = _strip(node)
    while isinstance(n, dict) and n.get("k") == "construct" and n.get("copy") and len(n.get("args") or []) == 1:
        n = _strip(n["args"][0])            # (before C++17 the temporary is copied into the parameter)
    if not isinstance(n, dict) or n.get("k") != "construct" or n.get("args"):
        return None
    t = n.get("t", "")
    for pre, spec in _FUNCTOR.items():
        if t.startswith(pre):
            return spec
    return None


def _ref(var):
    return {"l": var["l"], "k": "ref", "n": var["n"], "t": var["t"], "rk": "local", "id": var["id"]}


def _var(l, name, t, init):
    return {"k": "var", "l": l, "n": "%s$%d" % (name, l), "id": _fresh(), "t": t, "ts": t, "init": init, "desugared": True}


def _decl(var):
    return {"l": var["l"], "k": "decl", "d": [var]}


def _idx(p, u, et):
    return {"l": p["l"], "k": "index", "t": et, "a": _ref(p), "i": _ref(u)}


def _loop(l, u, first, last, body):
    cond = {"l": l, "k": "bin", "op": "<", "t": "bool", "a": _ref(u),
            "b": {"l": l, "k": "bin", "op": "-", "t": "long", "a": _ref(last), "b": _ref(first)}}
    return {"l": l, "k": "for", "init": _decl(u), "c": cond, "inc": {"l": l, "k": "un", "op": "++", "t": "long", "a": _ref(u)}, "body": body,
            "desugared": True}


def _expand(call):
    """-> (statements, value node or None) or None when the call is not one of the modelled forms"""
    name, args, l = call.get("callee"), call.get("args") or [], call["l"]
    if not all(isinstance(a, dict) for a in args):
        return None
    stmts = []

    def bind(a, nm):
        v = _var(l, nm, a.get("t", "int *"), a)
        stmts.append(_decl(v))
        return v
    u = _var(l, "u", "long", {"l": l, "k": "int", "v": "0", "t": "long"})
    if name == "std::inner_product" and len(args) == 4 and all(_is_ptr(a.get("t")) and _pure(a) for a in args[:3]) and _pure(args[3]):
        f1, l1, f2 = bind(args[0], "first1"), bind(args[1], "last1"), bind(args[2], "first2")
        acc = _var(l, "acc", call.get("t", "int"), args[3])
        stmts.append(_decl(acc))
        t = call.get("t", "int")
        prod = {"l": l, "k": "bin", "op": "*", "t": t, "a": _idx(f1, u, _elem_type(f1["t"])), "b": _idx(f2, u, _elem_type(f2["t"]))}
        stmts.append(_loop(l, u, f1, l1, {"l": l, "k": "assign", "op": "+=", "t": t, "ct": t, "a": _ref(acc), "b": prod}))
        return stmts, _ref(acc)
    if name == "std::accumulate" and len(args) == 3 and all(_is_ptr(a.get("t")) and _pure(a) for a in args[:2]) and _pure(args[2]):
        f1, l1 = bind(args[0], "first"), bind(args[1], "last")
        acc = _var(l, "acc", call.get("t", "int"), args[2])
        stmts.append(_decl(acc))
        t = call.get("t", "int")
        stmts.append(_loop(l, u, f1, l1, {"l": l, "k": "assign", "op": "+=", "t": t, "ct": t, "a": _ref(acc), "b": _idx(f1, u, _elem_type(f1["t"]))}))
        return stmts, _ref(acc)
    if name == "std::transform" and len(args) in (4, 5) and all(_is_ptr(a.get("t")) and _pure(a) for a in args[:-1]):
        fn = _functor(args[-1])
        if fn is None or (fn[0] == "un") != (len(args) == 4):
            return None
        f1, l1 = bind(args[0], "first1"), bind(args[1], "last1")
        f2 = bind(args[2], "first2") if len(args) == 5 else None
        o = bind(args[-2], "out")
        et = _elem_type(o["t"])
        if fn[0] == "un":
            val = {"l": l, "k": "un", "op": fn[1], "t": et, "a": _idx(f1, u, _elem_type(f1["t"]))}
        else:
            val = {"l": l, "k": "bin", "op": fn[1], "t": et, "a": _idx(f1, u, _elem_type(f1["t"])), "b": _idx(f2, u, _elem_type(f2["t"]))}
        stmts.append(_loop(l, u, f1, l1, {"l": l, "k": "assign", "op": "=", "t": et, "ct": et, "a": _idx(o, u, et), "b": val}))
        return stmts, None
    return None


def _slot(stmt):
    """the expression of a statement in which a call may be replaced by its value: (holder dict, key)"""
    k = stmt.get("k")
    if k == "decl" and len(stmt.get("d", [])) == 1 and stmt["d"][0].get("k") == "var" and isinstance(stmt["d"][0].get("init"), dict):
        return stmt["d"][0], "init"
    if k == "return" and isinstance(stmt.get("a"), dict):
        return stmt, "a"
    if k == "assign" and isinstance(stmt.get("b"), dict) and _pure(stmt.get("a")):
        return stmt, "b"
    return None


def _rewrite_stmt(stmt):
    """-> list of statements replacing stmt (or None: unchanged)"""
    if not isinstance(stmt, dict):
        return None
    if stmt.get("k") in ("call",) and stmt.get("callee") in _NAMES:
        ex = _expand(stmt)
        return ex[0] if ex else None
    sl = _slot(stmt)
    if sl is None:
        return None
    holder, key = sl
    expr = holder[key]
    calls = [x for x in walk(expr) if x.get("k") in _CALLS and not (x.get("k") == "construct" and (not x.get("args") or _functor(x)))]
    algo = [x for x in calls if x.get("callee") in _NAMES]
    if len(algo) != 1 or len(calls) != 1:
        return None
    ex = _expand(algo[0])
    if ex is None or ex[1] is None:
        return None
    stmts, value = ex
    if expr is algo[0]:
        holder[key] = value
    else:
        for x in walk(expr):
            for kk, vv in list(x.items()):
                if vv is algo[0]:
                    x[kk] = value
                elif isinstance(vv, list):
                    for i_, y in enumerate(vv):
                        if y is algo[0]:
                            vv[i_] = value
    return stmts + [stmt]


def _rewrite_children(node):
    """rewrite in every statement list and in every single-statement body"""
    if isinstance(node, list):
        for x in node:
            _rewrite_children(x)
        return
    if not isinstance(node, dict):
        return
    if node.get("k") == "block" and isinstance(node.get("s"), list):
        new = []
        for s in node["s"]:
            r = _rewrite_stmt(s)
            if r is None:
                new.append(s)
            else:
                new.extend(r)
        node["s"] = new
    for key in ("body", "then", "else"):
        b = node.get(key)
        if isinstance(b, dict) and b.get("k") != "block":
            r = _rewrite_stmt(b)
            if r is not None:
                node[key] = {"l": b["l"], "k": "block", "le": b.get("le", b["l"]), "s": r}
    for key, val in node.items():
        if isinstance(val, (dict, list)) and not (isinstance(val, dict) and val.get("desugared")):
            _rewrite_children(val)


def desugar_function(fd):
    """in place; -> number of algorithm calls written back as loops"""
    body = fd.get("body")
    if not isinstance(body, dict):
        return 0
    before = sum(1 for x in walk(body) if x.get("k") == "call" and x.get("callee") in _NAMES)
    if not before:
        return 0
    if body.get("k") != "block":
        return 0
    _rewrite_children(body)
    after = sum(1 for x in walk(body) if x.get("k") == "call" and x.get("callee") in _NAMES)
    return before - after
